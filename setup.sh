#!/bin/sh
# Builds the VC generator offline from /verif/engine (depends only on the cached golang.org/x/tools v0.29.0).
cd "$(dirname "$0")/engine" || exit 2
export GOFLAGS=-mod=mod GOPROXY=off GOSUMDB=off GOTOOLCHAIN=local
mkdir -p ../bin
go build -o ../bin/govc . || exit 2
echo "govc built"
