#!/usr/bin/env python3
"""usage: redo_seed.py <jobs> <seed-name>[:PROP,PROP] ...  — re-evaluates seeds already stored under /verif/seeded (after the
checks were strengthened) with tools/run_seed.sh and updates meta.json (keeps the earlier outcome under 'history')."""
import json, os, re, subprocess, sys
from concurrent.futures import ThreadPoolExecutor
V = os.path.dirname(os.path.dirname(os.path.abspath(__file__)))
jobs = int(sys.argv[1])
def one(spec):
    name, _, ps = spec.partition(":")
    dst = os.path.join(V, "seeded", name)
    meta = json.load(open(os.path.join(dst, "meta.json")))
    props = [p for p in ps.split(",") if p] or [meta["property"]]
    out = subprocess.run([os.path.join(V, "tools", "run_seed.sh"), dst] + props, capture_output=True, text=True)
    out = out.stdout + out.stderr
    open(os.path.join(dst, "try_seed.log"), "a").write("\n==== re-run ====\n" + out)
    vio = re.findall(r"VIOLATION property=(\S+) replay=\S+ obligation=(\S+)([^\n]*)", out)
    meta.setdefault("history", []).append({"check_result": meta["check_result"], "obligation": meta.get("obligation", "")})
    meta["check_result"] = "caught (after the check was strengthened; missed when first run)" if vio and meta["check_result"] == "missed" else ("caught" if vio else "missed")
    meta["obligation"] = "; ".join("%s:%s" % (p, o) for p, o, _ in vio[:4]) + (" (+%d more)" % (len(vio) - 4) if len(vio) > 4 else "") if vio else ""
    json.dump(meta, open(os.path.join(dst, "meta.json"), "w"), indent=1)
    return "%s %s %s" % (name, meta["check_result"], meta["obligation"][:200])
with ThreadPoolExecutor(jobs) as ex:
    for l in ex.map(one, sys.argv[2:]):
        print(l, flush=True)
