#!/usr/bin/env python3
"""Assembles /verif/DESIGN.md from docs/DESIGN_part1.md (as built; edit that file), the table of seeded changes
generated from seeded/*/meta.json, and docs/DESIGN_part2_original.md (the design written before the code, verbatim)."""
import json, os, glob
V = os.path.dirname(os.path.dirname(os.path.abspath(__file__)))
rows = ["| seed | property | file(s) | what it needs to manifest | result | obligation / evidence |", "|---|---|---|---|---|---|"]
caught = total = 0
for d in sorted(glob.glob(os.path.join(V, "seeded", "*"))):
    mp = os.path.join(d, "meta.json")
    if not os.path.exists(mp):
        continue
    m = json.load(open(mp))
    total += 1
    res = m.get("check_result", "?")
    if res.startswith("caught"):
        caught += 1
    import re
    cell = lambda s: re.sub(r"[=]{3,}|[-]{3,}", "", str(s).replace("|", "/").replace("\n", " ")).strip()
    rows.append("| %s | %s | %s | %s | %s | %s |" % (os.path.basename(d), m.get("property"), cell(", ".join(m.get("files", []))),
                cell(m.get("needs_to_manifest", ""))[:160], cell(res), cell(m.get("obligation", ""))[:260]))
table = "\n".join(rows) + "\n\n%d of %d seeded changes are caught (those marked 'bounded stand-in only' by no deductive obligation)." % (caught, total)
p1 = open(os.path.join(V, "docs", "DESIGN_part1.md")).read().replace("SEEDTABLE", table)
p2 = open(os.path.join(V, "docs", "DESIGN_part2_original.md")).read()
p2 = p2.replace("# DESIGN — contract-based deductive verification of emirpasic/gods (v2, pinned)", "## (original title) DESIGN — contract-based deductive verification of emirpasic/gods (v2, pinned)", 1)
open(os.path.join(V, "DESIGN.md"), "w").write(p1 + p2)
print("DESIGN.md written: %d seeds, %d caught" % (total, caught))
