#!/usr/bin/env python3
"""Prints the EnumerableWithIndex contract block (Each/Map/Select/Any/All/Find) for a list-like container.
usage: gen_enum.py <pkg> <recv-var> <Recv> <elem-dummy> <add-frame-kind>"""
import sys
pkg, v, Recv, dummy, kind = sys.argv[1:6]
S = "Seq(%s)" % v
N = "len(Seq(%s))" % v
IT = "ItInv(iterator) && iterator.%s == %s && fresh(iterator)" % (v, v)
if kind == "array":
    newinv = "fresh(newList) && Inv(newList) && newList != %s && (arr(newList.elements) == 0 || fresh(arr(newList.elements)))" % v
    res_owned = "\n//@   ensures [C16] arr(result.elements) == 0 || fresh(arr(result.elements))"
else:
    newinv = "fresh(newList) && Inv(newList) && newList != %s && (forall e like %s.first :: e.owner == newList ==> fresh(e))" % (v, v)
    res_owned = ""
print('''
// ---- enumerable (C14): agree with iteration, receiver unchanged, result fresh ----

//@ -- Each: f is applied exactly to (j, Seq[j]) for j = 0..n-1, in that order, once each (ghost call log)
//@ func %(Recv)s.Each
//@   requires Inv(%(v)s) && f != nil
//@   modifies nothing
//@   ensures [C14 C17 C18] loglen == old(loglen) + %(N)s
//@   ensures [C14] calls: forall j :: 0 <= j && j < %(N)s ==> logfun(old(loglen) + j) == f && logarg(old(loglen) + j, 0, 0) == j && logarg(old(loglen) + j, 1, %(dummy)s) == %(S)s[j]
//@   loop 1:
//@     invariant %(IT)s && loglen == old(loglen) + min(iterator.index + 1, %(N)s)
//@     invariant forall j :: 0 <= j && j <= iterator.index && j < %(N)s ==> logfun(old(loglen) + j) == f && logarg(old(loglen) + j, 0, 0) == j && logarg(old(loglen) + j, 1, %(dummy)s) == %(S)s[j]
//@     decreases %(N)s - iterator.index

//@ func %(Recv)s.Any
//@   requires Inv(%(v)s) && f != nil
//@   modifies nothing
//@   ensures [C14 C17 C18] result == (exists j :: 0 <= j && j < %(N)s && f(j, %(S)s[j]))
//@   loop 1:
//@     invariant %(IT)s
//@     invariant forall j :: 0 <= j && j <= iterator.index && j < %(N)s ==> !f(j, %(S)s[j])
//@     decreases %(N)s - iterator.index

//@ func %(Recv)s.All
//@   requires Inv(%(v)s) && f != nil
//@   modifies nothing
//@   ensures [C14 C17 C18] result == (forall j :: 0 <= j && j < %(N)s ==> f(j, %(S)s[j]))
//@   loop 1:
//@     invariant %(IT)s
//@     invariant forall j :: 0 <= j && j <= iterator.index && j < %(N)s ==> f(j, %(S)s[j])
//@     decreases %(N)s - iterator.index

//@ func %(Recv)s.Find
//@   requires Inv(%(v)s) && f != nil
//@   modifies nothing
//@   ensures [C14 C17 C18] found: result0 >= 0 ==> result0 < %(N)s && result1 == %(S)s[result0] && f(result0, result1)
//@     && (forall j :: 0 <= j && j < result0 ==> !f(j, %(S)s[j]))
//@   ensures [C14 C17 C18] notfound: result0 < 0 ==> result0 == 0 - 1 && result1 == zero(result1) && (forall j :: 0 <= j && j < %(N)s ==> !f(j, %(S)s[j]))
//@   loop 1:
//@     invariant %(IT)s
//@     invariant forall j :: 0 <= j && j <= iterator.index && j < %(N)s ==> !f(j, %(S)s[j])
//@     decreases %(N)s - iterator.index

//@ -- Map: a new list holding f(j, Seq[j]) at position j
//@ func %(Recv)s.Map
//@   requires Inv(%(v)s) && f != nil
//@   modifies nothing
//@   ensures [C14 C16 C17 C18] fresh(result) && Inv(result) && len(Seq(result)) == %(N)s
//@     && (forall j :: 0 <= j && j < %(N)s ==> Seq(result)[j] == f(j, %(S)s[j]))%(res_owned)s
//@   loop 1:
//@     invariant %(IT)s && newList != iterator && %(newinv)s
//@     invariant len(Seq(newList)) == min(iterator.index + 1, %(N)s)
//@     invariant forall j :: 0 <= j && j < len(Seq(newList)) ==> Seq(newList)[j] == f(j, %(S)s[j])
//@     decreases %(N)s - iterator.index

//@ -- Select: a new list holding exactly the elements for which f holds, in their original relative order;
//@ -- src[k] (ghost) is the original position of result element k, dst[j] the result position of a selected j
//@ func %(Recv)s.Select
//@   requires Inv(%(v)s) && f != nil
//@   modifies nothing
//@   ghostvar src := idmap
//@   ghostvar dst := idmap
//@   at after Add#1: src := store(src, len(Seq(newList)) - 1, iterator.index)
//@   at after Add#1: dst := store(dst, iterator.index, len(Seq(newList)) - 1)
//@   ghostresult src mapint
//@   ghostresult dst mapint
//@   ensures [C14 C16 C17 C18] fresh(result) && Inv(result) && len(Seq(result)) <= %(N)s
//@   ensures [C14] selected: forall k :: 0 <= k && k < len(Seq(result)) ==> 0 <= src[k] && src[k] < %(N)s && f(src[k], %(S)s[src[k]]) && Seq(result)[k] == %(S)s[src[k]] && dst[src[k]] == k
//@   ensures [C14] ordered: forall a, b :: 0 <= a && a < b && b < len(Seq(result)) ==> src[a] < src[b]
//@   ensures [C14] complete: forall j :: 0 <= j && j < %(N)s && f(j, %(S)s[j]) ==> 0 <= dst[j] && dst[j] < len(Seq(result)) && src[dst[j]] == j%(res_owned)s
//@   loop 1:
//@     invariant %(IT)s && newList != iterator && %(newinv)s && len(Seq(newList)) <= min(iterator.index + 1, %(N)s)
//@     invariant forall k :: 0 <= k && k < len(Seq(newList)) ==> 0 <= src[k] && src[k] <= iterator.index && src[k] < %(N)s && f(src[k], %(S)s[src[k]]) && Seq(newList)[k] == %(S)s[src[k]] && dst[src[k]] == k
//@     invariant forall a, b :: 0 <= a && a < b && b < len(Seq(newList)) ==> src[a] < src[b]
//@     invariant forall j :: 0 <= j && j <= iterator.index && j < %(N)s && f(j, %(S)s[j]) ==> 0 <= dst[j] && dst[j] < len(Seq(newList)) && src[dst[j]] == j
//@     decreases %(N)s - iterator.index
''' % dict(v=v, Recv=Recv, S=S, N=N, IT=IT, dummy=dummy, newinv=newinv, res_owned=res_owned))
