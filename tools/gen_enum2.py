#!/usr/bin/env python3
"""Each/Any/All/Find contract block for containers enumerated through their own iterator (sets and maps)."""
def gen(Recv, v, itinv, cur, N, a0, a1, d0, d1, findres, keyed):
    # a0(j), a1(j): the two callback arguments at position j; d0,d1: dummies typed like them
    A = lambda j: "%s, %s" % (a0(j), a1(j))
    log = lambda j: "logfun(old(loglen) + %s) == f && logarg(old(loglen) + %s, 0, %s) == %s && logarg(old(loglen) + %s, 1, %s) == %s" % (j, j, d0, a0(j), j, d1, a1(j))
    if keyed:
        find_found = "result0 == %s && result1 == %s" % (a0("p"), a1("p"))
        find_post = '''//@   ghostvar p := 0 - 1
//@   at exit: p := ite(%(cur)s < %(N)s && %(cur)s >= 0 && f(%(Acur)s), %(cur)s, 0 - 1)
//@   ghostresult p int
//@   ensures [C14 C17 C18] found: p >= 0 ==> p < %(N)s && %(ff)s && f(%(Ap)s) && (forall j :: 0 <= j && j < p ==> !f(%(Aj)s))
//@   ensures [C14 C17 C18] notfound: p < 0 ==> result0 == zero(result0) && result1 == zero(result1) && (forall j :: 0 <= j && j < %(N)s ==> !f(%(Aj)s))''' % dict(cur=cur, N=N, Acur=A(cur), ff=find_found, Ap=A("p"), Aj=A("j"))
    else:
        find_post = '''//@   ensures [C14 C17 C18] found: result0 >= 0 ==> result0 < %(N)s && result1 == %(a1r)s && f(result0, result1) && (forall j :: 0 <= j && j < result0 ==> !f(%(Aj)s))
//@   ensures [C14 C17 C18] notfound: result0 < 0 ==> result0 == 0 - 1 && result1 == zero(result1) && (forall j :: 0 <= j && j < %(N)s ==> !f(%(Aj)s))''' % dict(N=N, a1r=a1("result0"), Aj=A("j"))
    return '''
// ---- enumerable (C14): agree with iteration, receiver unchanged ----

//@ -- Each: f is applied exactly to the iterator's pairs at positions 0..n-1, in that order, once each (ghost call log)
//@ func %(Recv)s.Each
//@   requires Inv(%(v)s) && f != nil
//@   modifies nothing
//@   ensures [C14 C17 C18] loglen == old(loglen) + %(N)s
//@   ensures [C14] calls: forall j :: 0 <= j && j < %(N)s ==> %(logj)s
//@   loop 1:
//@     invariant %(itinv)s && loglen == old(loglen) + min(%(cur)s + 1, %(N)s)
//@     invariant forall j :: 0 <= j && j <= %(cur)s && j < %(N)s ==> %(logj)s
//@     decreases %(N)s - %(cur)s

//@ func %(Recv)s.Any
//@   requires Inv(%(v)s) && f != nil
//@   modifies nothing
//@   ensures [C14 C17 C18] result == (exists j :: 0 <= j && j < %(N)s && f(%(Aj)s))
//@   loop 1:
//@     invariant %(itinv)s
//@     invariant forall j :: 0 <= j && j <= %(cur)s && j < %(N)s ==> !f(%(Aj)s)
//@     decreases %(N)s - %(cur)s

//@ func %(Recv)s.All
//@   requires Inv(%(v)s) && f != nil
//@   modifies nothing
//@   ensures [C14 C17 C18] result == (forall j :: 0 <= j && j < %(N)s ==> f(%(Aj)s))
//@   loop 1:
//@     invariant %(itinv)s
//@     invariant forall j :: 0 <= j && j <= %(cur)s && j < %(N)s ==> f(%(Aj)s)
//@     decreases %(N)s - %(cur)s

//@ func %(Recv)s.Find
//@   requires Inv(%(v)s) && f != nil
//@   modifies nothing
%(find_post)s
//@   loop 1:
//@     invariant %(itinv)s
//@     invariant forall j :: 0 <= j && j <= %(cur)s && j < %(N)s ==> !f(%(Aj)s)
//@     decreases %(N)s - %(cur)s
''' % dict(Recv=Recv, v=v, itinv=itinv, cur=cur, N=N, logj=log("j"), Aj=A("j"), find_post=find_post)
