#!/bin/bash
# usage: try_seed.sh <seed-dir containing patch.diff + demo_test.go> <property-id> [more property ids]
# 1. confirms the seed in a scratch worktree (builds, suite passes, demo fails with / passes without the change)
# 2. applies it to /repo, runs the registered quick checks, and reverts /repo.
set -u
SEED=$(realpath "$1"); shift
export GOFLAGS=-mod=mod GOPROXY=off GOSUMDB=off GOTOOLCHAIN=local
if [ -n "$(git -C /repo status --porcelain)" ]; then echo "/repo has uncommitted changes; commit first"; exit 2; fi
WT=$(mktemp -d /tmp/seedwt.XXXXXX)
git -C /repo worktree add -q --detach "$WT" HEAD || exit 2
trap 'git -C /repo worktree remove --force "$WT" >/dev/null 2>&1; git -C /repo checkout -q -- . 2>/dev/null' EXIT
cd "$WT"
PKGDIR=$(grep -m1 -oE '(lists|maps|sets|stacks|queues|trees|containers|utils)/[a-z]*' "$SEED/patch.diff" | head -1)
mkdir -p "$WT/zz_demo" && cp "$SEED/demo_test.go" "$WT/zz_demo/demo_test.go"
echo "== confirm (demo on clean tree must pass)"
(cd "$WT" && go test -vet=off -count=1 ./zz_demo/ 2>&1 | tail -2)
git apply "$SEED/patch.diff" || { echo "PATCH DOES NOT APPLY"; exit 2; }
echo "== with change: build + suite (must pass) + demo (must fail)"
go build ./... 2>&1 | tail -2
go test -vet=off -count=1 $(go list ./... | grep -v zz_demo) 2>&1 | grep -v '^ok\|no test files' | tail -3
(cd "$WT" && go test -vet=off -count=1 ./zz_demo/ 2>&1 | tail -2)
echo "== checks on /repo with the change applied"
cd /repo && git apply "$SEED/patch.diff" || { echo "PATCH DOES NOT APPLY TO /repo"; exit 2; }
for p in "$@"; do
  (cd /verif && ./check.sh $p quick 2>&1 | grep -E 'VIOLATION|UNDECIDED|^property' | cut -c1-260)
done
git -C /repo checkout -q -- .
# evidence written while a seeded change was applied is not a record of the unchanged tree: restore the committed files
git -C /verif checkout -q -- evidence 2>/dev/null
