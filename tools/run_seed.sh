#!/bin/bash
# usage: run_seed.sh <seed-dir containing patch.diff + demo_test.go> <property-id> [more property ids]
# Like try_seed.sh but never touches /repo or /verif's evidence: the change is applied in a scratch worktree of /repo's
# HEAD, and the registered quick checks run from a scratch copy of /verif against that worktree (GOVC_REPO/GOVC_VERIF),
# so several seeds can be evaluated while /repo and /verif are being edited. Both scratch directories are removed at exit.
set -u
SEED=$(realpath "$1"); shift
export GOFLAGS=-mod=mod GOPROXY=off GOSUMDB=off GOTOOLCHAIN=local
V=$(cd "$(dirname "$0")/.." && pwd)
WT=$(mktemp -d /tmp/seedwt.XXXXXX)
VC=$(mktemp -d /tmp/seedvf.XXXXXX)
git -C /repo worktree add -q --detach "$WT" HEAD || exit 2
trap 'git -C /repo worktree remove --force "$WT" >/dev/null 2>&1; rm -rf "$VC" "$WT"' EXIT
rsync -a --exclude .git --exclude seeded --exclude replays "$V"/ "$VC"/
cd "$WT"
mkdir -p "$WT/zz_demo" && cp "$SEED/demo_test.go" "$WT/zz_demo/demo_test.go"
echo "== confirm (demo on clean tree must pass)"
(cd "$WT" && go test -vet=off -count=1 ./zz_demo/ 2>&1 | tail -2)
git apply "$SEED/patch.diff" || { echo "PATCH DOES NOT APPLY"; exit 2; }
echo "== with change: build + suite (must pass) + demo (must fail)"
go build ./... 2>&1 | tail -2
go test -vet=off -count=1 $(go list ./... | grep -v zz_demo) 2>&1 | grep -v '^ok\|no test files' | tail -3
(cd "$WT" && go test -vet=off -count=1 ./zz_demo/ 2>&1 | tail -2)
rm -rf "$WT/zz_demo"
echo "== checks on a worktree with the change applied"
for p in "$@"; do
  (cd "$VC" && GOVC_REPO="$WT" GOVC_VERIF="$VC" ./check.sh $p quick 2>&1 | grep -E 'VIOLATION|UNDECIDED|KNOWN-FINDING|^property|^bounded' | cut -c1-300)
done
