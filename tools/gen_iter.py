#!/usr/bin/env python3
"""Prints the index-cursor iterator contract block (the 'template' of DESIGN.md §2.3) for one package.
usage: gen_iter.py <container-field> <ContainerRecv> [forward]   e.g. gen_iter.py stack Stack"""
import sys
C, Recv = sys.argv[1], sys.argv[2]
forward = "forward" in sys.argv[3:]
cached = "cached" in sys.argv[3:]      # linked-list iterators cache the current element
byvalue = "byvalue" in sys.argv[3:]    # Iterator() returns the struct by value
N = "len(Seq(iterator.%s))" % C
S = "Seq(iterator.%s)" % C
MOD = "iterator.index, iterator.element" if cached else "iterator.index"
CACHE = (" && (0 <= it.index && it.index < len(Seq(it.%s)) ==> it.element == it.%s.nodes[it.index])" % (C, C)) if cached else ""
if byvalue:
    ITER_POST = "result.%s == %s && result.index == 0 - 1" % (C, C) + (" && result.element == nil" if cached else "")
else:
    ITER_POST = "fresh(result) && ItInv(result) && result.%s == %s && result.index == 0 - 1" % (C, C)
out = []
out.append("""
// ---- iterator: a cursor over positions -1..n of Seq(%(C)s) (C08) ----

//@ pred ItInv(it) := it != nil && it.%(C)s != nil && Inv(it.%(C)s) && 0 - 1 <= it.index && it.index <= len(Seq(it.%(C)s))%(CACHE)s

//@ func %(Recv)s.Iterator
//@   requires Inv(%(C)s)
//@   modifies nothing
//@   ensures [C08 C17 C18] %(ITER_POST)s

//@ func Iterator.Next
//@   requires ItInv(iterator)
//@   modifies %(MOD)s
//@   ensures [C08 C17] ItInv(iterator) && iterator.index == min(old(iterator.index) + 1, %(N)s)
//@   ensures [C08] result == (0 <= iterator.index && iterator.index < %(N)s)

//@ func Iterator.Value
//@   requires ItInv(iterator) && 0 <= iterator.index && iterator.index < %(N)s
//@   modifies nothing
//@   ensures [C08 C17 C18] result == %(S)s[iterator.index]

//@ func Iterator.Index
//@   requires ItInv(iterator)
//@   modifies nothing
//@   ensures [C08 C17 C18] result == iterator.index

//@ func Iterator.Begin
//@   requires ItInv(iterator)
//@   modifies %(MOD)s
//@   ensures [C08 C17] ItInv(iterator) && iterator.index == 0 - 1

//@ func Iterator.First
//@   requires ItInv(iterator)
//@   modifies %(MOD)s
//@   ensures [C08 C17] ItInv(iterator) && iterator.index == 0 && result == (%(N)s > 0)

//@ func Iterator.NextTo
//@   requires ItInv(iterator) && f != nil
//@   modifies %(MOD)s
//@   ensures [C08 C17] ItInv(iterator)
//@   ensures [C08] found: result ==> old(iterator.index) < iterator.index && iterator.index < %(N)s && f(iterator.index, %(S)s[iterator.index])
//@     && (forall j :: old(iterator.index) < j && j < iterator.index ==> !f(j, %(S)s[j]))
//@   ensures [C08] notfound: !result ==> iterator.index == %(N)s && (forall j :: old(iterator.index) < j && j < %(N)s ==> !f(j, %(S)s[j]))
//@   loop 1:
//@     invariant ItInv(iterator) && old(iterator.index) <= iterator.index
//@     invariant forall j :: old(iterator.index) < j && j <= iterator.index && j < %(N)s ==> !f(j, %(S)s[j])
//@     decreases %(N)s - iterator.index
""" % dict(C=C, Recv=Recv, N=N, S=S, MOD=MOD, CACHE=CACHE, ITER_POST=ITER_POST))
if not forward:
    out.append("""
//@ func Iterator.Prev
//@   requires ItInv(iterator)
//@   modifies %(MOD)s
//@   ensures [C08 C17] ItInv(iterator) && iterator.index == max(old(iterator.index) - 1, 0 - 1)
//@   ensures [C08] result == (0 <= iterator.index && iterator.index < %(N)s)

//@ func Iterator.End
//@   requires ItInv(iterator)
//@   modifies %(MOD)s
//@   ensures [C08 C17] ItInv(iterator) && iterator.index == %(N)s

//@ func Iterator.Last
//@   requires ItInv(iterator)
//@   modifies %(MOD)s
//@   ensures [C08 C17] ItInv(iterator) && iterator.index == %(N)s - 1 && result == (%(N)s > 0)

//@ func Iterator.PrevTo
//@   requires ItInv(iterator) && f != nil
//@   modifies %(MOD)s
//@   ensures [C08 C17] ItInv(iterator)
//@   ensures [C08] found: result ==> 0 <= iterator.index && iterator.index < old(iterator.index) && f(iterator.index, %(S)s[iterator.index])
//@     && (forall j :: iterator.index < j && j < old(iterator.index) ==> !f(j, %(S)s[j]))
//@   ensures [C08] notfound: !result ==> iterator.index == 0 - 1 && (forall j :: 0 <= j && j < old(iterator.index) ==> !f(j, %(S)s[j]))
//@   loop 1:
//@     invariant ItInv(iterator) && iterator.index <= old(iterator.index)
//@     invariant forall j :: iterator.index <= j && j < old(iterator.index) && 0 <= j ==> !f(j, %(S)s[j])
//@     decreases iterator.index + 1
""" % dict(C=C, Recv=Recv, N=N, S=S, MOD=MOD, CACHE=CACHE, ITER_POST=ITER_POST))
print("".join(out))
