#!/usr/bin/env python3
"""Bounded stand-ins (DESIGN.md §2.6/§4): runs the real tree mutators on every history of a stated scope through
`go test -overlay` (nothing is written into /repo) and checks the ghost-free form of the contracts the deductive layer
assumes. usage: bounded.py <property> <tier> [tree ...]   Prints VIOLATION lines, merges the outcome into the
property's evidence file under coverage.bounded, exits 1 on a violation."""
import json, os, subprocess, sys, tempfile, time, re, shutil

V = os.path.dirname(os.path.dirname(os.path.abspath(__file__)))
REPO = os.environ.get("GOVC_REPO", "/repo")
ENV = dict(os.environ, GOFLAGS="-mod=mod", GOPROXY="off", GOSUMDB="off", GOTOOLCHAIN="local")
TREES = {"rbt": ("trees/redblacktree", "rbt.go.tmpl"), "avl": ("trees/avltree", "avl.go.tmpl"), "btree": ("trees/btree", "btree.go.tmpl"),
         "heap": ("trees/binaryheap", "heap.go.tmpl"), "lhm": ("maps/linkedhashmap", "lhm.go.tmpl")}
SCOPE = {
 "quick":    {"rbt": dict(EXH_KEYS=4, EXH_DEPTH=5, PERM_N=7, PERM_REMOVALS=2, PERM_EXTRA=2, DEEP_MIN=8, DEEP_MAX=20, DEEP_REMOVALS=2),
              "avl": dict(EXH_KEYS=4, EXH_DEPTH=5, PERM_N=7, PERM_REMOVALS=2, PERM_EXTRA=2, DEEP_MIN=8, DEEP_MAX=20, DEEP_REMOVALS=2),
              "btree": dict(EXH_KEYS=4, EXH_DEPTH=5, PERM_N=8, PERM_REMOVALS=1, PERM_EXTRA=2, DEEP_MIN=8, DEEP_MAX=16, DEEP_REMOVALS=2, ORDERS="3, 4, 5"),
              "heap": dict(HEAP_DEPTH=5, HEAP_DEEP=40), "lhm": dict(LHM_DEPTH=5)},
 "thorough": {"rbt": dict(EXH_KEYS=4, EXH_DEPTH=6, PERM_N=8, PERM_REMOVALS=2, PERM_EXTRA=2, DEEP_MIN=8, DEEP_MAX=28, DEEP_REMOVALS=3),
              "avl": dict(EXH_KEYS=4, EXH_DEPTH=6, PERM_N=8, PERM_REMOVALS=2, PERM_EXTRA=2, DEEP_MIN=8, DEEP_MAX=28, DEEP_REMOVALS=3),
              "btree": dict(EXH_KEYS=4, EXH_DEPTH=6, PERM_N=8, PERM_REMOVALS=2, PERM_EXTRA=2, DEEP_MIN=8, DEEP_MAX=12, DEEP_REMOVALS=2, ORDERS="3, 4, 5, 6, 7"),
              "heap": dict(HEAP_DEPTH=6, HEAP_DEEP=80), "lhm": dict(LHM_DEPTH=6)},
}
# which stand-ins back which property
BY_PROP = {"C01": ["rbt", "avl", "btree"], "C02": ["rbt", "avl", "btree"], "C07": ["rbt", "avl", "btree"], "C08": ["btree", "heap"],
           "C15": ["rbt", "avl", "btree"], "C17": ["rbt", "avl", "btree"],
           # the extras (bsCheckExtras): B-tree JSON (outside the deductive subset), String() of the three trees, B-tree Keys()/Values()
           # snapshots, purity of the B-tree's read-only operations
           "C06": ["heap"], "C11": ["btree", "lhm"], "C12": ["btree", "lhm"], "C16": ["avl", "btree"], "C18": ["rbt", "avl", "btree"]}

def run_tree(tree, tier, tmp):
    pkgdir, tmpl = TREES[tree]
    src = open(os.path.join(V, "bounded", tmpl)).read().replace("//COMMON//", open(os.path.join(V, "bounded", "common.go.tmpl")).read())
    for k, v in SCOPE[tier][tree].items():
        src = src.replace(k, str(v))
    f = os.path.join(tmp, tree + "_bounded_test.go")
    open(f, "w").write(src)
    ov = os.path.join(tmp, tree + "_overlay.json")
    json.dump({"Replace": {os.path.join(REPO, pkgdir, "zz_bounded_standin_test.go"): f}}, open(ov, "w"))
    t0 = time.time()
    r = subprocess.run(["go", "test", "-overlay", ov, "-vet=off", "-v", "-count=1", "-timeout", "1500s", "-run", "TestBoundedStandIn", "./" + pkgdir],
                       cwd=REPO, env=ENV, capture_output=True, text=True)
    return r.returncode, r.stdout + r.stderr, time.time() - t0, src

def known_findings(prop):
    """finding: lines of known_findings.txt whose obligation is a bounded probe (bounded:<tag>) of this property"""
    out = {}
    try:
        for l in open(os.path.join(V, "known_findings.txt")):
            m = re.match(r"finding:\s+property=(\S+)\s+obligation=bounded:(\S+)\s+(.*)", l)
            if m and m.group(1) == prop:
                out[m.group(2)] = m.group(3).strip()
    except OSError:
        pass
    return out

def main():
    prop, tier = sys.argv[1], sys.argv[2]
    trees = sys.argv[3:] or BY_PROP.get(prop, [])
    if not trees:
        return 0
    tmp = tempfile.mkdtemp(prefix="govc_bounded_")
    results, bad = [], 0
    try:
        from concurrent.futures import ThreadPoolExecutor
        with ThreadPoolExecutor(3) as ex:
            outs = list(ex.map(lambda t: (t, run_tree(t, tier, tmp)), trees))
        for tree, (rc, out, secs, src) in outs:
            ok = re.search(r"BOUNDED-OK .*", out)
            vio = re.search(r"BOUNDED-VIOLATION (.*)", out)
            # probes of recorded defects: listed ones are printed as KNOWN-FINDING, an unlisted one is a violation
            kf = known_findings(prop)
            unlisted = []
            for tag, what in re.findall(r"BOUNDED-KNOWN (\S+) (.*)", out):
                if tag in kf:
                    print("KNOWN-FINDING: property=%s bounded:%s :: %s" % (prop, tag, what[:300]))
                else:
                    unlisted.append("%s %s" % (tag, what))
            if unlisted and not vio:
                vio = re.search(r"(.*)", "probe of a recorded defect fails but is not listed for this property: " + "; ".join(unlisted))
                ok = None
            entry = {"stand_in_for": {"heap": "binaryheap Values()/iterator Value(): permutation of the contents also among equal-comparing elements",
                                      "lhm": "linkedhashmap ToJSON/FromJSON (hand-written encoder/decoder outside the deductive subset)", "rbt": "redblacktree Remove and colour layer (deleteCase1-6, balance)", "avl": "avltree put/remove/removeMin/putFix/removeFix/rotations",
                                      "btree": "btree Put/Remove (insert/split/delete/rebalance), navigation, iterator, JSON, String, snapshots, purity of observers"}[tree],
                     "level": "bounded", "seconds": round(secs, 1)}
            if ok:
                m = re.search(r"histories=(\d+) operations=(\d+) max_comparator_calls=(\d+) scope=\"(.*)\"", ok.group(0))
                entry["samples"] = re.findall(r"BOUNDED-SAMPLE (.*)", out)[:8]
                entry.update(result="no violation within scope", histories=int(m.group(1)), operations=int(m.group(2)), max_comparator_calls=int(m.group(3)), scope=m.group(4))
            elif vio:
                bad += 1
                rd = os.path.join(V, "replays", prop)
                os.makedirs(rd, exist_ok=True)
                path = os.path.join(rd, "bounded_%s.txt" % tree)
                open(path, "w").write("property: %s\nbounded stand-in: %s\nfailing history replayed on the real code (go test -overlay, in-package):\n%s\n\n--- go test output ---\n%s\n" % (prop, tree, vio.group(1), out[-4000:]))
                print("VIOLATION property=%s replay=%s obligation=bounded:%s %s" % (prop, path, tree, vio.group(1)[:300]))
                entry.update(result="VIOLATION", detail=vio.group(1)[:500])
            else:
                # a panic or build failure inside the stand-in
                bad += 1
                rd = os.path.join(V, "replays", prop)
                os.makedirs(rd, exist_ok=True)
                path = os.path.join(rd, "bounded_%s.txt" % tree)
                open(path, "w").write("property: %s\nbounded stand-in: %s\nthe run ended abnormally (panic, timeout or build failure):\n%s\n" % (prop, tree, out[-6000:]))
                what = "panic" if "panic" in out else "abnormal end"
                print("VIOLATION property=%s replay=%s obligation=bounded:%s %s in the bounded stand-in (see replay file)" % (prop, path, tree, what))
                entry.update(result="VIOLATION", detail=out[-800:])
            results.append(entry)
    finally:
        shutil.rmtree(tmp, ignore_errors=True)
    ev = os.path.join(V, "evidence", prop + ".json")
    if os.path.exists(ev):
        d = json.load(open(ev))
        d["coverage"]["bounded_stand_ins"] = results
        d.setdefault("assumptions", []).append("bounded stand-ins (tools/bounded.py): exhaustive within the stated scope only; trusted: the Go toolchain running the injected test, the shape predicates in /verif/bounded/*.go.tmpl")
        if prop == "C07":
            # C07 is decided by the bounded stand-in: the evidence is exploration-level; the deductive obligations stay listed
            tot = sum(r.get("histories", 0) for r in results)
            d["level"] = "exploration"
            cov = d["coverage"]
            cov["evaluations"] = tot
            cov["distinct_nontrivial"] = tot
            cov["rule"] = ("every history of the scope printed per stand-in is generated once (enumeration, no sampling), so all are distinct; each "
                           "contains at least one mutating operation and is executed on the real code with shape predicate and comparator-call "
                           "bound checked after every operation")
            cov["exhaustive"] = True
            cov["explanation"] = "bounded stand-in; deductive obligations (keys obligations/discharged) cover only the B-tree fill arithmetic, in-node search, setParent and root split"
            cov["samples"] = [sm for r in results for sm in r.get("samples", [])][:12] + cov.get("samples", [])[:3]
        d["violations"] = d.get("violations", 0) + bad
        d["wall_s"] = d.get("wall_s", 0) + sum(r["seconds"] for r in results)
        json.dump(d, open(ev, "w"), indent=1)
    for r in results:
        print("bounded stand-in %-40s %s (%s s)" % (r["stand_in_for"][:40], r["result"], r["seconds"]))
    return 1 if bad else 0

if __name__ == "__main__":
    sys.exit(main())
