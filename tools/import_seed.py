#!/usr/bin/env python3
"""usage: import_seed.py <PROP> [extra props to run]  — copies /tmp/wt_<PROP>/seed_{A,B} to /verif/seeded/<PROP>_{A,B},
confirms each with tools/try_seed.sh (scratch worktree), runs the registered checks against it on /repo (apply, check,
checkout) and writes meta.json with the outcome."""
import json, os, re, shutil, subprocess, sys
V = os.path.dirname(os.path.dirname(os.path.abspath(__file__)))
P = sys.argv[1]
props = [P] + sys.argv[2:]
for X in "AB":
    src = os.environ.get("SEED_SRC", "/tmp/wt_%s") % P + "/seed_%s" % X
    if not os.path.exists(os.path.join(src, "patch.diff")):
        print("no seed", src); continue
    dst = os.path.join(V, "seeded", "%s_%s%s" % (P, os.environ.get("SEED_TAG", ""), X))
    os.makedirs(dst, exist_ok=True)
    for f in ("patch.diff", "demo_test.go", "notes.txt"):
        if os.path.exists(os.path.join(src, f)):
            shutil.copy(os.path.join(src, f), os.path.join(dst, f))
    r = subprocess.run([os.path.join(V, "tools", "try_seed.sh"), dst] + props, capture_output=True, text=True)
    out = r.stdout + r.stderr
    open(os.path.join(dst, "try_seed.log"), "w").write(out)
    vio = re.findall(r"VIOLATION property=(\S+) replay=\S+ obligation=(\S+)([^\n]*)", out)
    confirm_ok = ("PATCH DOES NOT APPLY" not in out) and re.search(r"== with change.*?FAIL", out, re.S) is not None
    files = sorted(set(re.findall(r"^\+\+\+ b/(\S+)", open(os.path.join(dst, "patch.diff")).read(), re.M)))
    notes = open(os.path.join(dst, "notes.txt")).read().strip().splitlines() if os.path.exists(os.path.join(dst, "notes.txt")) else [""]
    first = next((l.strip() for l in notes if l.strip()), "")
    meta = {
        "property": P, "files": files,
        "origin": "independent sub-agent given only the property text and a scratch worktree without contract files",
        "needs_to_manifest": first[:300],
        "confirmed_by_me": "tools/try_seed.sh: demo passes on the clean tree; with the patch go build succeeds, the library's own test suite passes, the demo fails" if confirm_ok else "NOT CONFIRMED: see try_seed.log",
        "check_result": "caught" if vio else "missed",
        "obligation": "; ".join("%s:%s" % (p, o) for p, o, _ in vio[:4]) + (" (+%d more)" % (len(vio) - 4) if len(vio) > 4 else "") if vio else "",
        "ran": "tools/try_seed.sh %s %s  (git -C /repo apply; ./check.sh <id> quick; git -C /repo checkout -- .)" % (dst, " ".join(props)),
    }
    json.dump(meta, open(os.path.join(dst, "meta.json"), "w"), indent=1)
    print(P, X, meta["check_result"], meta["obligation"][:200], "" if confirm_ok else "NOT-CONFIRMED")
    print("\n".join(l for l in out.splitlines() if l.startswith("==") or "ok " in l or "FAIL" in l or l.startswith("property"))[:1500])
