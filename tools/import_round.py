#!/usr/bin/env python3
"""usage: import_round.py <tag> <jobs> <PROP[:extra,props]> ...  — copies /tmp/wt_<PROP>/seed_{A,B} to
/verif/seeded/<PROP>_<tag>{A,B}, evaluates each with tools/run_seed.sh (scratch worktree + scratch copy of /verif, so
/repo and /verif/evidence are untouched) and writes meta.json with the outcome."""
import json, os, re, shutil, subprocess, sys
from concurrent.futures import ThreadPoolExecutor
V = os.path.dirname(os.path.dirname(os.path.abspath(__file__)))
tag, jobs = sys.argv[1], int(sys.argv[2])
work = []
for spec in sys.argv[3:]:
    P, _, extra = spec.partition(":")
    props = [P] + [e for e in extra.split(",") if e]
    for X in "AB":
        src = "/tmp/wt_%s/seed_%s" % (P, X)
        if not os.path.exists(os.path.join(src, "patch.diff")):
            print("no seed", src); continue
        dst = os.path.join(V, "seeded", "%s_%s%s" % (P, tag, X))
        os.makedirs(dst, exist_ok=True)
        for f in ("patch.diff", "demo_test.go", "notes.txt"):
            if os.path.exists(os.path.join(src, f)):
                shutil.copy(os.path.join(src, f), os.path.join(dst, f))
        work.append((P, X, dst, props))
def one(w):
    P, X, dst, props = w
    r = subprocess.run([os.path.join(V, "tools", "run_seed.sh"), dst] + props, capture_output=True, text=True)
    out = r.stdout + r.stderr
    open(os.path.join(dst, "try_seed.log"), "w").write(out)
    vio = re.findall(r"VIOLATION property=(\S+) replay=\S+ obligation=(\S+)([^\n]*)", out)
    confirm_ok = ("PATCH DOES NOT APPLY" not in out) and re.search(r"== with change.*?FAIL", out, re.S) is not None
    files = sorted(set(re.findall(r"^\+\+\+ b/(\S+)", open(os.path.join(dst, "patch.diff")).read(), re.M)))
    notes = open(os.path.join(dst, "notes.txt")).read().strip().splitlines() if os.path.exists(os.path.join(dst, "notes.txt")) else [""]
    first = next((l.strip() for l in notes if l.strip()), "")
    meta = {
        "property": P, "files": files,
        "origin": "independent sub-agent given only the property text (plus a hint which containers to prefer) and a scratch worktree without contract files",
        "needs_to_manifest": first[:300],
        "confirmed_by_me": "tools/run_seed.sh: demo passes on the clean tree; with the patch go build succeeds, the library's own test suite passes, the demo fails" if confirm_ok else "NOT CONFIRMED: see try_seed.log",
        "check_result": "caught" if vio else "missed",
        "obligation": "; ".join("%s:%s" % (p, o) for p, o, _ in vio[:4]) + (" (+%d more)" % (len(vio) - 4) if len(vio) > 4 else "") if vio else "",
        "ran": "tools/run_seed.sh %s %s  (scratch worktree of /repo HEAD with the patch applied; ./check.sh <id> quick from a scratch copy of /verif)" % (dst, " ".join(props)),
    }
    json.dump(meta, open(os.path.join(dst, "meta.json"), "w"), indent=1)
    return "%s %s %s %s %s" % (P, X, meta["check_result"], meta["obligation"][:200], "" if confirm_ok else "NOT-CONFIRMED")
with ThreadPoolExecutor(jobs) as ex:
    for line in ex.map(one, work):
        print(line, flush=True)
