#!/usr/bin/env python3
"""Prints contract blocks shared by the red-black-tree wrappers (the delegation 'template' of DESIGN.md §2.3).
usage: gen_treewrap.py frame <treeexpr>      -> the modifies lines of a tree mutator for tree expression <treeexpr>
       gen_treewrap.py iterator <Recv> <recvvar> <treeexpr-from-container>   -> key/value iterator delegating to rbt.Iterator"""
import sys
def frame(t, remove=False):
    extra = ", x.tr" if remove else ""
    return ("//@   modifies %s.Root, %s.size, %s.n, %s.nodes, %s.rank\n"
            "//@   modifies each x like %s.Root where x.tr == %s : x.Left, x.Right, x.Parent, x.a, x.b, x.color, x.Key, x.Value, x.pos%s\n") % (t, t, t, t, t, t, t, extra)
def iterator(recv, var, tree):
    I = "iterator.iterator"
    T = I + ".tree"
    return '''
// ---- iterator: delegates to the red-black tree iterator (C08) ----

//@ pred ItInv(it) := it != nil && redblacktree.ItInv(it.iterator)
//@ pred Cur(it) := redblacktree.Cur(it.iterator)

//@ func %(recv)s.Iterator
//@   requires Inv(%(var)s)
//@   modifies nothing
//@   ensures [C08 C17 C18] fresh(result) && ItInv(result) && fresh(result.iterator) && result.iterator.tree == %(tree)s && Cur(result) == 0 - 1

//@ func Iterator.Next
//@   requires ItInv(iterator)
//@   modifies %(I)s.node, %(I)s.position
//@   ensures [C08 C17] ItInv(iterator) && Cur(iterator) == min(old(Cur(iterator)) + 1, %(T)s.size)
//@   ensures [C08] result == (0 <= Cur(iterator) && Cur(iterator) < %(T)s.size)

//@ func Iterator.Prev
//@   requires ItInv(iterator)
//@   modifies %(I)s.node, %(I)s.position
//@   ensures [C08 C17] ItInv(iterator) && Cur(iterator) == max(old(Cur(iterator)) - 1, 0 - 1)
//@   ensures [C08] result == (0 <= Cur(iterator) && Cur(iterator) < %(T)s.size)

//@ func Iterator.Key
//@   requires ItInv(iterator) && %(I)s.position == 1
//@   modifies nothing
//@   ensures [C08 C17 C18] result == redblacktree.KeyAt(%(T)s, Cur(iterator))

//@ func Iterator.Value
//@   requires ItInv(iterator) && %(I)s.position == 1
//@   modifies nothing
//@   ensures [C08 C17 C18] result == redblacktree.ValAt(%(T)s, Cur(iterator))

//@ func Iterator.Begin
//@   requires ItInv(iterator)
//@   modifies %(I)s.node, %(I)s.position
//@   ensures [C08 C17] ItInv(iterator) && Cur(iterator) == 0 - 1

//@ func Iterator.End
//@   requires ItInv(iterator)
//@   modifies %(I)s.node, %(I)s.position
//@   ensures [C08 C17] ItInv(iterator) && Cur(iterator) == %(T)s.size

//@ func Iterator.First
//@   requires ItInv(iterator)
//@   modifies %(I)s.node, %(I)s.position
//@   ensures [C08 C17] ItInv(iterator) && Cur(iterator) == 0 && result == (%(T)s.size > 0)

//@ func Iterator.Last
//@   requires ItInv(iterator)
//@   modifies %(I)s.node, %(I)s.position
//@   ensures [C08 C17] ItInv(iterator) && Cur(iterator) == %(T)s.size - 1 && result == (%(T)s.size > 0)

//@ func Iterator.NextTo
//@   requires ItInv(iterator) && f != nil
//@   modifies %(I)s.node, %(I)s.position
//@   ensures [C08 C17] ItInv(iterator)
//@   ensures [C08] found: result ==> old(Cur(iterator)) < Cur(iterator) && Cur(iterator) < %(T)s.size && f(redblacktree.KeyAt(%(T)s, Cur(iterator)), redblacktree.ValAt(%(T)s, Cur(iterator)))
//@     && (forall j :: old(Cur(iterator)) < j && j < Cur(iterator) ==> !f(redblacktree.KeyAt(%(T)s, j), redblacktree.ValAt(%(T)s, j)))
//@   ensures [C08] notfound: !result ==> Cur(iterator) == %(T)s.size && (forall j :: old(Cur(iterator)) < j && j < %(T)s.size ==> !f(redblacktree.KeyAt(%(T)s, j), redblacktree.ValAt(%(T)s, j)))
//@   loop 1:
//@     invariant ItInv(iterator) && old(Cur(iterator)) <= Cur(iterator)
//@     invariant forall j :: old(Cur(iterator)) < j && j <= Cur(iterator) && j < %(T)s.size ==> !f(redblacktree.KeyAt(%(T)s, j), redblacktree.ValAt(%(T)s, j))
//@     decreases %(T)s.size - Cur(iterator)

//@ func Iterator.PrevTo
//@   requires ItInv(iterator) && f != nil
//@   modifies %(I)s.node, %(I)s.position
//@   ensures [C08 C17] ItInv(iterator)
//@   ensures [C08] found: result ==> 0 <= Cur(iterator) && Cur(iterator) < old(Cur(iterator)) && f(redblacktree.KeyAt(%(T)s, Cur(iterator)), redblacktree.ValAt(%(T)s, Cur(iterator)))
//@     && (forall j :: Cur(iterator) < j && j < old(Cur(iterator)) ==> !f(redblacktree.KeyAt(%(T)s, j), redblacktree.ValAt(%(T)s, j)))
//@   ensures [C08] notfound: !result ==> Cur(iterator) == 0 - 1 && (forall j :: 0 <= j && j < old(Cur(iterator)) ==> !f(redblacktree.KeyAt(%(T)s, j), redblacktree.ValAt(%(T)s, j)))
//@   loop 1:
//@     invariant ItInv(iterator) && Cur(iterator) <= old(Cur(iterator))
//@     invariant forall j :: Cur(iterator) <= j && j < old(Cur(iterator)) && 0 <= j ==> !f(redblacktree.KeyAt(%(T)s, j), redblacktree.ValAt(%(T)s, j))
//@     decreases Cur(iterator) + 1
''' % dict(recv=recv, var=var, tree=tree, I=I, T=T)
if __name__ == "__main__":
    if sys.argv[1] == "frame":
        print(frame(sys.argv[2], len(sys.argv) > 3), end="")
    else:
        print(iterator(sys.argv[2], sys.argv[3], sys.argv[4]))
