#!/usr/bin/env python3
"""Regenerates /verif/MANIFEST.json from the table below (kept in one place so the manifest stays valid)."""
import json, subprocess, os

V = os.path.dirname(os.path.dirname(os.path.abspath(__file__)))
ALL = ["C%02d" % i for i in range(1, 19)]

# property -> (level text, level note, design ref)
GENERIC = ("Unbounded deductive proof, function by function: every function under contract for this property (listed with obligation "
           "counts in the evidence file) has machine-checked pre/postconditions, loop invariants, variants and frame conditions over the "
           "container's representation invariant and abstract view (sequence / set / map, with ghost state where needed); the VCs are "
           "generated from the go/ssa form of /repo's working tree on every run and discharged by z3/cvc5; callers are checked against "
           "callee contracts only. All histories follow by induction over the per-operation contracts. Scope actually covered: %s")
NOTE = ("Trusted: go/ssa translation and the engine's Go semantics (A-SSA), solver unsat answers (A-SMT), mathematical integers, "
        "assumed contracts of external functions (slices.*, fmt, strings, encoding/json) and of user comparators/callbacks, the "
        "history-induction meta-argument; all listed per run in evidence 'assumptions'. Functions of the property's anchor files that "
        "are not yet under contract are outside the claim: %s")
CLAIMED = {
 "C01": (GENERIC % "HashMap, HashBidiMap, LinkedHashMap, TreeMap (by delegation), TreeBidiMap (all operations incl. Put), RedBlackTree (every operation incl. Remove verified against ghost rank/sequence), AVLTree (every operation incl. Put and Remove; their recursive drivers put/remove/removeMin are verified in the thorough tier and their contracts assumed in the quick tier), BTree (construction, in-node search, root split, Clear/Size/Empty, and - against a tree-level ghost invariant - Get/GetNode/searchRecursively/Keys/Values). Bounded stand-in (labelled bounded in the evidence, never counted as proved): RedBlackTree.Remove, AVLTree Put/Remove (both redundantly) and BTree Put/Remove (contracts assumed, `trusted`) are executed on every Put/Remove history of a stated small scope against a model map after every step.",
         NOTE % "the deductive claim does not cover the BTree mutators Put/Remove (assumed contracts, backed by the bounded stand-in only); the AVL drivers are verified in the thorough tier only; RedBlackTree.Remove's package-internal colour precondition is not checked at the wrappers' call sites (it is proved to be preserved by every tree operation).", "DESIGN.md §4 C01"),
 "C02": (GENERIC % "RedBlackTree and AVLTree navigation (Left/Right/Floor/Ceiling/Get over a ghost in-order node sequence with strictly ascending keys as invariant), their iterators and Keys/Values, RedBlackTree.Put preserving order, TreeMap (Min/Max/Floor/Ceiling/Keys/Values), TreeSet.Values, TreeBidiMap Keys/Values; BTree Left/Right (the leaf holding the first / last position), iterator and Keys/Values in position order over the tree-level ghost invariant (strictly ascending keys).",
         NOTE % "B-tree mutators (order after those operations is checked by the bounded stand-in only; AVL Put/Remove are verified in the thorough tier: sorted Keys(), Floor/Ceiling/Left/Right against the model after every step); the interface-typed LeftKey/RightKey/LeftValue/RightValue of the B-tree are proved panic-free and pure only (their value is checked by the stand-in).", "DESIGN.md §4 C02"),
 "C03": (GENERIC % "ArrayList, SinglyLinkedList and DoublyLinkedList: every operation named by the statement (Add/Append/Prepend/Insert/Remove/Set/Swap/Sort/Clear/Get/IndexOf/Contains/Size/Values) against one sequence specification, linked lists through a ghost node sequence.",
         NOTE % "ArrayList.Sort's sortedness and permutation clauses rest on the assumed slices.SortFunc contract (the list's own obligations — frame, length, short lists untouched — are proved).", "DESIGN.md §4 C03"),
 "C04": (GENERIC % "HashSet, LinkedHashSet, TreeSet: Add/Remove/Contains/Clear/Size/Values.", NOTE % "nothing of the three sets.", "DESIGN.md §4 C04"),
 "C05": (GENERIC % "CircularBuffer (all capacities c>=1 and all wrap-around positions symbolically), ArrayStack, ArrayQueue, LinkedListStack, LinkedListQueue.",
         NOTE % "none of the five containers.", "DESIGN.md §4 C05"),
 "C06": (GENERIC % "BinaryHeap Push (single and bulk/Floyd heapify), Pop, Peek, Clear with heap order as invariant, minimality by an induction lemma, and the multiset clause through ghost permutations; PriorityQueue by delegation.",
         NOTE % "the heap iterator's Value() (level-wise k-th smallest) is proved safe, terminating and pure deductively; that Values()/iteration are a permutation of the contents with the Peek element first (a relation between Value() results at different indices, also among equal-comparing elements) is decided by a bounded stand-in only (labelled bounded).", "DESIGN.md §4 C06"),
 "C08": (GENERIC % "all 18 iterator types: array list/stack/queue, ring, both linked lists, linked-list stack/queue, linked hash map/set, red-black tree, AVL tree, tree map/set/bidimap, binary heap and priority queue (cursor rules; their Value() is the level-wise order by definition) are proved as cursors over positions -1..n: Next/Prev saturate, Begin/End/First/Last jump, NextTo/PrevTo stop at the nearest match; the B-tree iterator is covered by the bounded stand-in only.",
         NOTE % "the B-tree iterator is now verified deductively (Next/Prev descend and climb by in-node search of the current key; cursor rules over the ghost position of the entry) given the tree invariant that the assumed Put/Remove contracts provide, and additionally exercised by the bounded stand-in; the stop rule of NextTo/PrevTo for the heap iterators is stated over positions only.", "DESIGN.md §4 C08"),
 "C09": (GENERIC % "LinkedHashMap and LinkedHashSet: the key sequence of the ordering list (ghost rank per key) changes exactly as the statement says under Put/Add/Remove/Clear; Keys/Values/iterator read that sequence.",
         NOTE % "ToJSON order (C11), Each (C14).", "DESIGN.md §4 C09"),
 "C10": (GENERIC % "HashBidiMap and TreeBidiMap, all operations (Put/Get/GetKey/Remove/Clear/Size/Keys/Values): the two inner maps are mutual inverses up to the comparators' equivalences as a representation invariant; TreeBidiMap.Put is proved through intermediate-state lemmas.",
         NOTE % "nothing of the two maps.", "DESIGN.md §4 C10"),
 "C11": (GENERIC % "ToJSON/MarshalJSON and FromJSON/UnmarshalJSON of 17 containers (three lists, three sets, four stack/queue wrappers, ring, heap, priority queue, hash map, red-black tree, tree map, hash bidimap) against a ghost model of encoding/json (content of a byte string as a function of the slice; Marshal attaches it, Unmarshal reads it): ToJSON yields an array/object whose content is the abstract view, FromJSON of that content yields the same view — the round trip is the composition of the two postconditions.",
         NOTE % "A-JSON (the assumed contract of encoding/json, incl. JSON-representable elements); LinkedHashMap (two known findings: outside the verified subset and genuinely defective; a bounded stand-in runs ToJSON/FromJSON on every Put/Remove history of a small scope so that other changes to these two functions are still reported); BTree ToJSON is verified, BTree FromJSON over the assumed Put contract; AVLTree JSON is verified over AVL Put (whose driver is verified in the thorough tier); TreeBidiMap.ToJSON is verified, the content of its FromJSON is not claimed.", "DESIGN.md §4 C11/C12"),
 "C12": (GENERIC % "FromJSON of the same 17 containers: on success the content is exactly what the document denotes (sets deduplicate, trees sort, ring keeps the last capacity-many values, heap order is restored, bidimap stays one-to-one) and the representation invariant holds (so every other contract applies afterwards, including after null, [] and {}); on error the abstract state is unchanged (atomicity).",
         NOTE % "A-JSON; LinkedHashMap.FromJSON (known finding; bounded stand-in for everything else about it); BTree.FromJSON over the assumed contracts of BTree Put (bounded stand-in); AVLTree over AVL Put (driver verified in the thorough tier); for TreeBidiMap.FromJSON soundness, atomicity and null are proved, the loaded content is not claimed.", "DESIGN.md §4 C11/C12"),
 "C13": (GENERIC % "HashSet, LinkedHashSet and TreeSet Intersection/Union/Difference: exact membership, operands unchanged (frame), result freshly allocated with the operands' comparator; identical-operand case included.",
         NOTE % "none of the nine operations.", "DESIGN.md §4 C13"),
 "C14": (GENERIC % "Each (exact callback sequence through a ghost call log: the iterator's pairs at positions 0..n-1, in order, once each), Any/All/Find (exists / for-all / first match), Select (exactly the matching elements, original relative order via ghost position maps or ranks, same comparator) and Map on the three lists, TreeSet, LinkedHashSet, TreeMap, LinkedHashMap; Each/Any/All/Find on TreeBidiMap; receiver unchanged (frame) and result freshly allocated.",
         NOTE % "Map on TreeSet, LinkedHashSet, TreeMap and LinkedHashMap is proved in both directions (every mapped element/key is in the result; every element/key of the result is a mapped one, with a mapped value for the maps) and with the size bound, but not that the last of several colliding keys wins; TreeBidiMap.Map only soundness of the result, size bound and presence of the last mapped pair (a many-to-one f evicts, as repeated Put does).", "DESIGN.md §4 C14"),
 "C15": (GENERIC % "Size/Empty/Values/Keys/Clear agreement for every container under contract (incl. the B-tree's observers over the tree-level ghost invariant), and String() of 20 containers (incl. the red-black and AVL trees): begins with the container's name (string constants decided by Go's own strings.HasPrefix, concatenation and TrimRight by axioms) and writes nothing.",
         NOTE % "the text of BTree.String() (built in a bytes.Buffer the engine does not model) is checked by the bounded stand-in only; String() of RedBlackTree and AVLTree is proved (name prefix through the recursive output(…, *string), empty frame, termination), BTree String()/output are proved to return normally, terminate and write nothing.", "DESIGN.md §4 C15"),
 "C16": (GENERIC % "freshness of returned slices and ownership of stored slices (Owned two-state predicate) for every Values()/Keys() under contract; argument slices are only read (frame); containers.GetSortedValues/GetSortedValuesFunc sort the snapshot returned through the interface (assumed interface contract: Values() returns a fresh slice, which every implementation is proved to do) and have an empty frame.",
         NOTE % "sortedness of GetSortedValues / GetSortedValuesFunc rests on the assumed contracts of slices.Sort / slices.SortFunc (ascending under the ordered type's own order / the comparator); B-tree Keys()/Values() freshness is proved, their independence from later tree changes additionally checked by the bounded stand-in.", "DESIGN.md §4 C16"),
 "C17": (GENERIC % "no-panic (nil, index, slice bounds, division, make, nil-map, nil-func), explicit-panic reachability, loop variants and silence obligations for every function under contract so far.",
         NOTE % "functions not yet under contract (see evidence); integer overflow treated as mathematical.", "DESIGN.md §4 C17"),
 "C18": (GENERIC % "empty frame ('modifies nothing' proved at every store and call) for the read-only operations under contract so far; concurrency follows by the frame meta-argument.",
         NOTE % "read-only operations of containers not yet under contract.", "DESIGN.md §4 C18"),
}

CLAIMED["C07"] = (
 "Bounded, not proved: the balance invariants and comparator-call bounds of the statement are checked by executing the real Put/Remove/Get of RedBlackTree, AVLTree and BTree (orders 3..5 quick, 3..7 thorough) on every history of a stated finite scope (all Put/Remove histories up to length 5/6 over 4 keys; all insertion orders of 7/8 keys followed by all short removal sequences and further inserts; trees of up to 20-40 keys built in a fixed family of orders with every sequence of 2/3 removals and complete removal in every order of the family), with the documented shape predicate (colours and black heights / balance factors and heights / fill bounds, leaf depth, Height()) and the statement's comparator-call bound evaluated after every single operation. The deductive part is reported separately in the evidence: for the red-black tree the whole colour layer (equal black heights, no red node with a red child, black root — hence the documented path-length ratio), node count and parent mirror are proved to be established or preserved by NewWith, Clear, Put, Remove and FromJSON through a ghost black height; for the AVL tree the rebalancing core (rotate, singlerot, doublerot, putFix, removeFix) is proved against a ghost height — the slot afterwards holds a balanced root and the result reports the height change exactly — and on top of it Put and Remove with their recursive drivers put/remove/removeMin (thorough tier): every node is balanced (|b| <= 1, b = h(right)-h(left)) after every Put and Remove; for the B-tree the order-derived fill parameters with the arithmetic lemmas that make split and merge respect the fill bounds, the in-node binary search, setParent and the root split (fill of both halves, children handed over and re-parented) are proved for all orders m >= 3. Height() of the B-tree is proved to be the number of levels given the tree-level ghost invariant. The B-tree split/rebalance recursion (so the B-tree shape after mutations) and the comparator-call bounds of all three trees could not be brought within the engine's reach in the time available; DESIGN.md §I.4 C07 says why.",
 "Everything the bounded stand-in does not enumerate (larger trees, longer histories, other key types) is outside the claim; the comparator bound is checked on int keys with a counting comparator. Trusted: the Go toolchain running the test binary; the shape predicates in /verif/bounded/*.go.tmpl.",
 "DESIGN.md §4 C07")
CATEGORY = {"C07": "exploration"}
TECHNIQUE = {"C07": "bounded stand-in for contract-based deductive verification (exhaustive small-scope execution of the real code against shape predicates and comparator-call bounds); deductive obligations (go/ssa VCs, z3/cvc5) only for the B-tree fill arithmetic, in-node search and root split"}
BOUNDED = {"C01", "C02", "C06", "C08", "C11", "C12", "C15", "C16", "C17", "C18"}
BOUNDED_NOTE = "; plus a bounded stand-in (exhaustive small-scope execution, labelled bounded, not counted as proved) for the functions outside the engine's reach (tree mutators behind assumed contracts, String() of the trees, LinkedHashMap JSON, heap Values() permutation)"

NOT_YET = "not claimed yet: the contracts for this property are still being written in this session (the technique applies; see DESIGN.md §4)"

def main():
    commits = subprocess.run(["git", "-C", "/repo", "log", "--format=%H %s"], capture_output=True, text=True).stdout.splitlines()
    hook_commits = [l.split()[0] for l in commits if l.split(" ", 1)[1].startswith("verif:")]
    checks = []
    for p in ALL:
        if p not in CLAIMED:
            continue
        text, note, ref = CLAIMED[p]
        checks.append({
            "property_id": p,
            "quick_cmd": "./check.sh %s quick" % p,
            "thorough_cmd": "./check.sh %s thorough" % p,
            "evidence_file": "/verif/evidence/%s.json" % p,
            "replay_cmd_template": "cat {path}",
            "engine": "govc",
            "level_claimed": {"category": CATEGORY.get(p, "proof"), "text": text, "design_ref": ref},
            "level_note": note,
            "technique": TECHNIQUE.get(p, "contract-based deductive verification: weakest-precondition VCs generated from go/ssa of the real code + //@ contracts, discharged by z3/cvc5") + (BOUNDED_NOTE if p in BOUNDED else ""),
        })
    m = {
        "version": 1,
        "setup_cmd": "./setup.sh",
        "hooks": {
            "guard": "verif",
            "enable": "go build -tags verif ./... (the guarded files are comment-only contract files <pkg>/contracts_verif.go; the engine loads /repo with -tags=verif)",
            "baseline_off_cmd": "cd /repo && go test -vet=off -count=1 ./...",
            "source_commits": hook_commits,
            "add_only": True,
        },
        "engines": [{"name": "govc", "path": "/verif/engine", "serves_properties": sorted(CLAIMED),
                     "kind_free_text": "VC generator over go/ssa with a contract language in //@ comments; SMT back ends z3 4.8.12, z3 5.1.0, cvc5 1.0.3"}],
        "checks": checks,
        "not_applicable": [{"property_id": p, "reason": NOT_YET} for p in ALL if p not in CLAIMED],
        "notes": "All checks rebuild their verification conditions from /repo's working tree on every run. Known findings: /verif/known_findings.txt.",
    }
    json.dump(m, open(os.path.join(V, "MANIFEST.json"), "w"), indent=1)
    print("MANIFEST.json written:", len(checks), "checks")

if __name__ == "__main__":
    main()
