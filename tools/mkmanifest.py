#!/usr/bin/env python3
"""Regenerates /verif/MANIFEST.json from the table below (kept in one place so the manifest stays valid)."""
import json, subprocess, os

V = os.path.dirname(os.path.dirname(os.path.abspath(__file__)))
ALL = ["C%02d" % i for i in range(1, 19)]

# property -> (level text, level note, design ref)
CLAIMED = {
 "C05": ("Unbounded deductive proof (all capacities c>=1, all wrap-around positions, all histories by induction over per-operation contracts) "
         "that the circular buffer refines a bounded FIFO sequence: every exported operation of queues/circularbuffer has a machine-checked "
         "contract (representation invariant + abstract sequence view), VCs are generated from the go/ssa form of /repo's working tree on every "
         "run and discharged by z3/cvc5. Stacks and the list-backed queues are added as their list contracts land.",
         "Trusted: go/ssa translation and the engine's Go semantics, solver unsat answers, mathematical integers (no overflow), history-induction "
         "meta-argument. See evidence assumptions.", "DESIGN.md §4 C05"),
}

NOT_YET = "not claimed yet: the contracts for this property are still being written in this session (the technique applies; see DESIGN.md §4)"

def main():
    commits = subprocess.run(["git", "-C", "/repo", "log", "--format=%H %s"], capture_output=True, text=True).stdout.splitlines()
    hook_commits = [l.split()[0] for l in commits if l.split(" ", 1)[1].startswith("verif:")]
    checks = []
    for p in ALL:
        if p not in CLAIMED:
            continue
        text, note, ref = CLAIMED[p]
        checks.append({
            "property_id": p,
            "quick_cmd": "./check.sh %s quick" % p,
            "thorough_cmd": "./check.sh %s thorough" % p,
            "evidence_file": "/verif/evidence/%s.json" % p,
            "replay_cmd_template": "cat {path}",
            "engine": "govc",
            "level_claimed": {"category": "proof", "text": text, "design_ref": ref},
            "level_note": note,
            "technique": "contract-based deductive verification: weakest-precondition VCs generated from go/ssa of the real code + //@ contracts, discharged by z3/cvc5",
        })
    m = {
        "version": 1,
        "setup_cmd": "./setup.sh",
        "hooks": {
            "guard": "verif",
            "enable": "go build -tags verif ./... (the guarded files are comment-only contract files <pkg>/contracts_verif.go; the engine loads /repo with -tags=verif)",
            "baseline_off_cmd": "cd /repo && go test -vet=off -count=1 ./...",
            "source_commits": hook_commits,
            "add_only": True,
        },
        "engines": [{"name": "govc", "path": "/verif/engine", "serves_properties": sorted(CLAIMED),
                     "kind_free_text": "VC generator over go/ssa with a contract language in //@ comments; SMT back ends z3 4.8.12, z3 5.1.0, cvc5 1.0.3"}],
        "checks": checks,
        "not_applicable": [{"property_id": p, "reason": NOT_YET} for p in ALL if p not in CLAIMED],
        "notes": "All checks rebuild their verification conditions from /repo's working tree on every run. Known findings: /verif/known_findings.txt.",
    }
    json.dump(m, open(os.path.join(V, "MANIFEST.json"), "w"), indent=1)
    print("MANIFEST.json written:", len(checks), "checks")

if __name__ == "__main__":
    main()
