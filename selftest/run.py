#!/usr/bin/env python3
"""Must-fail corpus: each mutant is a small edit of /repo that breaks a property; the engine must fail a named
obligation on it. Usage: run.py [-k substring] [--tests]   (--tests also checks that the mutant compiles and passes go test)"""
import json, os, subprocess, sys, shutil, tempfile, argparse

V = os.path.dirname(os.path.dirname(os.path.abspath(__file__)))
ENV = dict(os.environ, GOFLAGS="-mod=mod", GOPROXY="off", GOSUMDB="off", GOTOOLCHAIN="local")

def main():
    ap = argparse.ArgumentParser()
    ap.add_argument("-k", default="")
    ap.add_argument("--tests", action="store_true")
    ap.add_argument("-j", type=int, default=4)
    args = ap.parse_args()
    muts = json.load(open(os.path.join(V, "selftest", "mutants.json")))
    muts = [m for m in muts if args.k in m["id"]]
    bad = 0
    from concurrent.futures import ThreadPoolExecutor
    def run(m):
        tmp = tempfile.mkdtemp(prefix="govc_mut_")
        try:
            subprocess.run(["rsync", "-a", "--exclude", ".git", "/repo/", tmp + "/"], check=True)
            p = os.path.join(tmp, m["file"])
            s = open(p).read()
            if s.count(m["old"]) != 1:
                return (m, "BROKEN-MUTANT: pattern occurs %d times" % s.count(m["old"]), "")
            open(p, "w").write(s.replace(m["old"], m["new"]))
            if args.tests:
                pkg = "./" + os.path.dirname(m["file"]) + "/..."
                r = subprocess.run(["go", "test", "-vet=off", "-count=1", pkg], cwd=tmp, env=ENV, capture_output=True, text=True)
                if r.returncode != 0:
                    return (m, "BROKEN-MUTANT: go test fails", r.stdout[-500:])
            env = dict(ENV, GOVC_REPO=tmp)
            tmo = "8000"
            if m.get("thorough"):
                # the function is verified in the thorough tier only (obligations of up to a minute)
                env["GOVC_THOROUGH"] = "1"
                tmo = "45000"
            r = subprocess.run([os.path.join(V, "bin", "govc"), "verify", "-t", tmo] + m["funcs"], env=env, capture_output=True, text=True)
            if "load:" in r.stderr or "load:" in r.stdout:
                return (m, "BROKEN-MUTANT: does not load", (r.stderr + r.stdout)[-300:])
            fails = [l for l in r.stdout.splitlines() if l.startswith("FAIL") or " ERROR " in l]
            hit = [l for l in fails if m["expect"] in l]
            if hit:
                return (m, "caught", hit[0][:160])
            if fails:
                return (m, "caught-elsewhere", fails[0][:160])
            return (m, "MISSED", r.stdout[-300:])
        finally:
            shutil.rmtree(tmp, ignore_errors=True)
    with ThreadPoolExecutor(args.j) as ex:
        for m, status, info in ex.map(run, muts):
            print("%-40s %-18s %s" % (m["id"], status, info))
            if status not in ("caught", "caught-elsewhere"):
                bad += 1
    print("%d mutants, %d not caught" % (len(muts), bad))
    sys.exit(1 if bad else 0)

if __name__ == "__main__":
    main()
