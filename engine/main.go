package main

import (
	"flag"
	"fmt"
	"os"
	"path/filepath"
	"runtime"
	"sort"
	"strings"
	"time"
)

func usage() {
	fmt.Fprintln(os.Stderr, `usage:
  govc verify [-t ms] [-dump dir] [-v] <pkg.Recv.Func | pkg.* > ...   verify functions, print every obligation
  govc check  -property Cxx [-tier quick|thorough]                     run the check of one property
  govc list                                                            list functions under contract
  govc selftest                                                        must-fail corpus`)
	os.Exit(2)
}

func main() {
	if len(os.Args) < 2 {
		usage()
	}
	switch os.Args[1] {
	case "verify":
		cmdVerify(os.Args[2:])
	case "check":
		cmdCheck(os.Args[2:])
	case "list":
		cmdList(os.Args[2:])
	default:
		usage()
	}
}

func repoDir() string {
	if d := os.Getenv("GOVC_REPO"); d != "" {
		return d
	}
	return "/repo"
}

func matchFuncs(e *Engine, pats []string) []string {
	var keys []string
	for k := range e.funcs {
		keys = append(keys, k)
	}
	sort.Strings(keys)
	var out []string
	seen := map[string]bool{}
	for _, p := range pats {
		for _, k := range keys {
			ok := k == p
			if strings.HasSuffix(p, "*") && strings.HasPrefix(k, strings.TrimSuffix(p, "*")) {
				ok = true
			}
			if ok && !seen[k] {
				seen[k] = true
				out = append(out, k)
			}
		}
	}
	return out
}

func cmdVerify(args []string) {
	fs := flag.NewFlagSet("verify", flag.ExitOnError)
	timeout := fs.Int("t", 10000, "solver timeout per obligation (ms)")
	dump := fs.String("dump", "", "directory to dump SMT scripts of undischarged obligations")
	verbose := fs.Bool("v", false, "print every obligation")
	onlySpec := fs.Bool("spec", true, "only functions that have a contract")
	ovf := fs.Bool("ovf", false, "generate integer-overflow obligations")
	noRetry := fs.Bool("noretry", true, "do not retry undischarged obligations with a larger budget")
	only := fs.String("only", "", "solve only the obligations whose name contains one of these comma-separated substrings (proof-engineering loop)")
	fs.Parse(args)
	checkOverflow = *ovf
	e, err := LoadEngine(repoDir())
	if err != nil {
		fmt.Fprintln(os.Stderr, "load:", err)
		os.Exit(2)
	}
	tmp, _ := os.MkdirTemp("", "govc")
	defer os.RemoveAll(tmp)
	keys := matchFuncs(e, fs.Args())
	var all []*Obligation
	t0 := time.Now()
	nerr := 0
	for _, k := range keys {
		fn := e.funcs[k]
		spec := e.specFor(fn)
		if spec == nil && *onlySpec {
			continue
		}
		if spec != nil && spec.Inline {
			continue
		}
		if spec != nil && spec.Trusted {
			fmt.Printf("%-60s TRUSTED (contract assumed)\n", k)
			continue
		}
		if spec != nil && spec.ThoroughOnly && os.Getenv("GOVC_THOROUGH") == "" && len(fs.Args()) > 0 && strings.Contains(strings.Join(fs.Args(), " "), "*") {
			fmt.Printf("%-60s THOROUGH-ONLY (skipped by a wildcard run; set GOVC_THOROUGH=1)\n", k)
			continue
		}
		ctx, x, err := e.VerifyFunction(fn)
		if err != nil {
			fmt.Printf("FAIL %-60s ERROR contract-binding: %v\n", k, err)
			nerr++
			continue
		}
		_ = x
		all = append(all, ctx.obls...)
		for _, n := range x.notes {
			fmt.Printf("  note: %s\n", n)
		}
	}
	if *only != "" {
		var sel []*Obligation
		for _, o := range all {
			for _, sub := range strings.Split(*only, ",") {
				if sub != "" && strings.Contains(o.Name, sub) {
					sel = append(sel, o)
					break
				}
			}
		}
		all = sel
	}
	gen := time.Since(t0)
	SolveAll(all, SolveOpts{TimeoutMs: *timeout, Dir: tmp, NoRetry: *noRetry}, 2*runtime.NumCPU())
	bad := 0
	for _, o := range all {
		ok := o.Result == "unsat"
		if o.Expected == "sat" {
			ok = o.Result != "unsat" || strings.Contains(o.Name, "cover:exit")
		}
		if !ok {
			bad++
		}
		if *verbose || !ok {
			status := "ok  "
			if !ok {
				status = "FAIL"
			}
			fmt.Printf("%s %-70s %-8s %-7s %.2fs  %s  [%s]\n", status, o.Name, o.Result, o.Solver, o.TimeS, o.Pos, o.Text)
		}
		if (!ok || strings.HasPrefix(o.Result, "error") || os.Getenv("GOVC_DUMP_ALL") == o.Name) && *dump != "" {
			os.MkdirAll(*dump, 0o755)
			os.WriteFile(filepath.Join(*dump, sanitize(o.Name)+".smt2"), []byte(o.Script("z3", *timeout, true)), 0o644)
			if o.Model != "" {
				os.WriteFile(filepath.Join(*dump, sanitize(o.Name)+".out"), []byte(o.Model), 0o644)
			}
		}
	}
	bad += nerr
	fmt.Printf("%d obligations, %d not discharged (%d binding errors); generation %.1fs, total %.1fs\n", len(all), bad, nerr, gen.Seconds(), time.Since(t0).Seconds())
	if bad > 0 {
		os.Exit(1)
	}
}

func cmdList(args []string) {
	e, err := LoadEngine(repoDir())
	if err != nil {
		fmt.Fprintln(os.Stderr, "load:", err)
		os.Exit(2)
	}
	var keys []string
	for k := range e.funcs {
		keys = append(keys, k)
	}
	sort.Strings(keys)
	for _, k := range keys {
		spec := e.specFor(e.funcs[k])
		s := "-"
		if spec != nil {
			s = fmt.Sprintf("contract (%d requires, %d ensures) props=%v", len(spec.Requires), len(spec.Ensures), spec.Props)
		}
		fmt.Printf("%-60s %s\n", k, s)
	}
}
