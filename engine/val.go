package main

// Symbolic values, Go type -> SMT sort mapping, type substitution for generics.

import (
	"fmt"
	"go/types"
	"strings"

	"golang.org/x/tools/go/ssa"
)

type Kind int

const (
	KScalar  Kind = iota // one SMT term
	KSlice               // arr, off, len, cap
	KStruct              // struct value: Fs
	KTuple               // multiple results: Fs
	KLoc                 // generator-side pointer to a field / element / local
	KSeq                 // spec sequence (len, at)
	KSet                 // spec set (membership closure)
	KUnit                // struct{} and other zero-size values
	KArrPtr              // pointer to a heap array ([n]T): Arr, N
	KArray               // array value [n]T: S is an (Array Int elem) term
	KMapView             // spec map (dom, val closures)
	KLambda              // spec lambda
)

type Val struct {
	K   Kind
	T   types.Type // resolved Go type (nil for pure spec values)
	S   string     // scalar term
	Arr string     // slice / arrptr
	Off string
	// optional decomposition Off == OffBase + OffDelta kept by slicing expressions, so that element reads of s[lo:][j]
	// are written idx(OffBase, OffDelta + j): the same shape contracts about the underlying slice use as trigger
	OffBase, OffDelta string
	Len               string
	Cap               string
	Fs                []Val
	Loc               *Loc
	Seq               *SeqV
	Set               *SetV
	Map               *MapV
	Lam               *LamV
	N                 int64  // array length
	Srt               string // sort of S for spec-only scalars when T == nil
}

type LocKind int

const (
	LField     LocKind = iota // field (path) of a heap object
	LElem                     // element of an element array (slice backing / heap array)
	LFieldElem                // element of an array-typed field
	LLocal                    // local cell
	LGlobal                   // package-level variable
	LSlot                     // symbolic **Node parameter: either the Root field of a tree or a Children[i] slot of a node
)

type Loc struct {
	K     LocKind
	Ref   string       // object ref (LField, LFieldElem)
	Owner *types.Named // resolved owner struct type
	Path  []int        // field index path below Owner (LField/LFieldElem) or below the local (LLocal)
	Arr   string       // LElem: array ref
	Idx   string       // LElem/LFieldElem: index
	Local *ssa.Alloc   // LLocal
	Name  string       // LGlobal
	T     types.Type   // pointee type (resolved)
	// LSlot: IsRoot ? (TreeOwner, Ref).Root : (Owner, NodeRef).<array field Path[0]>[Idx]
	IsRoot    string
	NodeRef   string
	TreeOwner *types.Named
	RootPath  int
}

type SeqV struct {
	Len  string
	At   func(i string) Val
	Elem types.Type
}
type SetV struct {
	Mem  func(x Val) string
	Elem types.Type
}
type MapV struct {
	Dom func(k Val) string
	Get func(k Val) Val
	Len string
}
type LamV struct {
	Vars []Binder
	Body Expr
	Env  *Env
}

func scalar(t types.Type, s string) Val { return Val{K: KScalar, T: t, S: s} }
func boolVal(s string) Val              { return Val{K: KScalar, T: types.Typ[types.Bool], S: s} }
func intVal(s string) Val               { return Val{K: KScalar, T: types.Typ[types.Int], S: s} }

// ---------- type substitution ----------

type TSubst map[*types.TypeParam]types.Type

func (m TSubst) apply(t types.Type) types.Type {
	if len(m) == 0 || t == nil {
		return t
	}
	switch t := t.(type) {
	case *types.TypeParam:
		if r, ok := m[t]; ok {
			return r
		}
		// match by name+index as a fallback (receiver type params are re-declared per method)
		return t
	case *types.Pointer:
		e := m.apply(t.Elem())
		if e == t.Elem() {
			return t
		}
		return types.NewPointer(e)
	case *types.Slice:
		e := m.apply(t.Elem())
		if e == t.Elem() {
			return t
		}
		return types.NewSlice(e)
	case *types.Array:
		e := m.apply(t.Elem())
		if e == t.Elem() {
			return t
		}
		return types.NewArray(e, t.Len())
	case *types.Map:
		k, v := m.apply(t.Key()), m.apply(t.Elem())
		if k == t.Key() && v == t.Elem() {
			return t
		}
		return types.NewMap(k, v)
	case *types.Named:
		ta := t.TypeArgs()
		if ta == nil || ta.Len() == 0 {
			return t
		}
		args := make([]types.Type, ta.Len())
		changed := false
		for i := 0; i < ta.Len(); i++ {
			args[i] = m.apply(ta.At(i))
			if args[i] != ta.At(i) {
				changed = true
			}
		}
		if !changed {
			return t
		}
		inst, err := types.Instantiate(nil, t.Origin(), args, false)
		if err != nil {
			panic(fmt.Errorf("instantiate %v: %v", t, err))
		}
		return inst
	case *types.Tuple:
		n := t.Len()
		vars := make([]*types.Var, n)
		changed := false
		for i := 0; i < n; i++ {
			v := t.At(i)
			nt := m.apply(v.Type())
			if nt != v.Type() {
				changed = true
			}
			vars[i] = types.NewVar(v.Pos(), v.Pkg(), v.Name(), nt)
		}
		if !changed {
			return t
		}
		return types.NewTuple(vars...)
	case *types.Signature:
		p := m.apply(t.Params()).(*types.Tuple)
		r := m.apply(t.Results()).(*types.Tuple)
		if p == t.Params() && r == t.Results() {
			return t
		}
		return types.NewSignatureType(nil, nil, nil, p, r, t.Variadic())
	case *types.Alias:
		return m.apply(types.Unalias(t))
	}
	return t
}

// unify binds type parameters occurring in pattern so that pattern == actual.
func unify(pattern, actual types.Type, m TSubst) {
	if pattern == nil || actual == nil {
		return
	}
	pattern = types.Unalias(pattern)
	actual = types.Unalias(actual)
	switch p := pattern.(type) {
	case *types.TypeParam:
		if _, ok := m[p]; !ok {
			m[p] = actual
		}
	case *types.Pointer:
		if a, ok := actual.(*types.Pointer); ok {
			unify(p.Elem(), a.Elem(), m)
		}
	case *types.Slice:
		if a, ok := actual.(*types.Slice); ok {
			unify(p.Elem(), a.Elem(), m)
		}
	case *types.Array:
		if a, ok := actual.(*types.Array); ok {
			unify(p.Elem(), a.Elem(), m)
		}
	case *types.Map:
		if a, ok := actual.(*types.Map); ok {
			unify(p.Key(), a.Key(), m)
			unify(p.Elem(), a.Elem(), m)
		}
	case *types.Named:
		if a, ok := actual.(*types.Named); ok && p.TypeArgs() != nil && a.TypeArgs() != nil && p.TypeArgs().Len() == a.TypeArgs().Len() {
			for i := 0; i < p.TypeArgs().Len(); i++ {
				unify(p.TypeArgs().At(i), a.TypeArgs().At(i), m)
			}
		}
	case *types.Signature:
		if a, ok := actual.Underlying().(*types.Signature); ok {
			for i := 0; i < p.Params().Len() && i < a.Params().Len(); i++ {
				unify(p.Params().At(i).Type(), a.Params().At(i).Type(), m)
			}
			for i := 0; i < p.Results().Len() && i < a.Results().Len(); i++ {
				unify(p.Results().At(i).Type(), a.Results().At(i).Type(), m)
			}
		}
	}
}

// ---------- sorts ----------

func typeStr(t types.Type) string {
	return types.TypeString(t, func(p *types.Package) string { return p.Name() })
}

func isUnitType(t types.Type) bool {
	if s, ok := t.Underlying().(*types.Struct); ok {
		return s.NumFields() == 0
	}
	return false
}

// sortOf maps a (resolved) Go type to an SMT sort for scalar-representable types.
func (c *Ctx) sortOf(t types.Type) string {
	t = types.Unalias(t)
	if tp, ok := t.(*types.TypeParam); ok {
		s := "TP_" + sanitize(tp.Obj().Name())
		c.DeclSort(s)
		return s
	}
	switch u := t.Underlying().(type) {
	case *types.Basic:
		switch {
		case u.Info()&types.IsBoolean != 0:
			return "Bool"
		case u.Info()&types.IsInteger != 0:
			return "Int"
		case u.Info()&types.IsString != 0:
			c.DeclSort("Str")
			return "Str"
		case u.Info()&types.IsFloat != 0:
			return "Real"
		case u.Kind() == types.UntypedNil, u.Kind() == types.UnsafePointer:
			return "Int"
		}
	case *types.Pointer, *types.Map, *types.Signature, *types.Interface, *types.Chan:
		return "Int"
	case *types.Array:
		return arrSort("Int", c.sortOf(u.Elem()))
	case *types.Struct:
		if u.NumFields() == 0 {
			c.DeclSort("Unit")
			return "Unit"
		}
	}
	panic(fmt.Errorf("sortOf: no scalar sort for %s", typeStr(t)))
}

func isScalarType(t types.Type) bool {
	t = types.Unalias(t)
	if _, ok := t.(*types.TypeParam); ok {
		return true
	}
	switch u := t.Underlying().(type) {
	case *types.Basic, *types.Pointer, *types.Map, *types.Signature, *types.Interface, *types.Chan:
		return true
	case *types.Array:
		return isScalarType(u.Elem())
	case *types.Struct:
		return u.NumFields() == 0
	}
	return false
}

func isRefLike(t types.Type) bool {
	t = types.Unalias(t)
	if _, ok := t.(*types.TypeParam); ok {
		return false
	}
	switch t.Underlying().(type) {
	case *types.Pointer, *types.Map:
		return true
	}
	return false
}

func isIntType(t types.Type) bool {
	if t == nil {
		return false
	}
	b, ok := t.Underlying().(*types.Basic)
	return ok && b.Info()&types.IsInteger != 0
}

// zero value of a type.
func (c *Ctx) zero(t types.Type) Val {
	t = types.Unalias(t)
	if tp, ok := t.(*types.TypeParam); ok {
		s := c.sortOf(tp)
		name := "zero_" + s
		c.DeclFun(name, nil, s)
		return scalar(t, name)
	}
	switch u := t.Underlying().(type) {
	case *types.Basic:
		switch {
		case u.Info()&types.IsBoolean != 0:
			return scalar(t, "false")
		case u.Info()&types.IsInteger != 0:
			return scalar(t, "0")
		case u.Info()&types.IsString != 0:
			c.DeclSort("Str")
			c.DeclFun("str_empty", nil, "Str")
			return scalar(t, "str_empty")
		case u.Info()&types.IsFloat != 0:
			return scalar(t, "0.0")
		}
		return scalar(t, "0")
	case *types.Pointer, *types.Map, *types.Signature, *types.Interface, *types.Chan:
		return scalar(t, "0")
	case *types.Slice:
		return Val{K: KSlice, T: t, Arr: "0", Off: "0", Len: "0", Cap: "0"}
	case *types.Struct:
		if u.NumFields() == 0 {
			c.DeclSort("Unit")
			c.DeclFun("unit", nil, "Unit")
			return Val{K: KUnit, T: t, S: "unit"}
		}
		v := Val{K: KStruct, T: t}
		for i := 0; i < u.NumFields(); i++ {
			v.Fs = append(v.Fs, c.zero(structFieldType(t, i)))
		}
		return v
	case *types.Array:
		es := c.sortOf(u.Elem())
		z := c.zero(u.Elem())
		return Val{K: KArray, T: t, S: c.ConstArr("Int", es, z.S), N: u.Len()}
	}
	panic(fmt.Errorf("zero: unsupported type %s", typeStr(t)))
}

func structFieldType(t types.Type, i int) types.Type {
	return t.Underlying().(*types.Struct).Field(i).Type()
}

// fresh symbolic value of a type.
func (c *Ctx) freshVal(prefix string, t types.Type) Val {
	t = types.Unalias(t)
	if _, ok := t.(*types.TypeParam); !ok {
		switch u := t.Underlying().(type) {
		case *types.Slice:
			return Val{K: KSlice, T: t, Arr: c.Fresh(prefix+".arr", "Int"), Off: c.Fresh(prefix+".off", "Int"),
				Len: c.Fresh(prefix+".len", "Int"), Cap: c.Fresh(prefix+".cap", "Int")}
		case *types.Struct:
			if u.NumFields() == 0 {
				return c.zero(t)
			}
			v := Val{K: KStruct, T: t}
			for i := 0; i < u.NumFields(); i++ {
				v.Fs = append(v.Fs, c.freshVal(prefix+"."+u.Field(i).Name(), u.Field(i).Type()))
			}
			return v
		case *types.Tuple:
			v := Val{K: KTuple, T: t}
			for i := 0; i < u.Len(); i++ {
				v.Fs = append(v.Fs, c.freshVal(fmt.Sprintf("%s.%d", prefix, i), u.At(i).Type()))
			}
			return v
		case *types.Array:
			return Val{K: KArray, T: t, S: c.Fresh(prefix, c.sortOf(t)), N: u.Len()}
		}
	}
	return scalar(t, c.Fresh(prefix, c.sortOf(t)))
}

// components flattens a value into (sort, term) pairs — used for ite-merging and equality.
func (c *Ctx) components(v Val) [][2]string {
	switch v.K {
	case KScalar, KUnit, KArray:
		if v.T == nil || v.Srt != "" {
			return [][2]string{{v.Srt, v.S}}
		}
		return [][2]string{{c.sortOf(v.T), v.S}}
	case KMapView:
		if v.Map == nil {
			return [][2]string{{v.Srt, v.S}}
		}
	case KSlice:
		return [][2]string{{"Int", v.Arr}, {"Int", v.Off}, {"Int", v.Len}, {"Int", v.Cap}}
	case KArrPtr:
		return [][2]string{{"Int", v.Arr}}
	case KStruct, KTuple:
		var out [][2]string
		for _, f := range v.Fs {
			out = append(out, c.components(f)...)
		}
		return out
	}
	panic(fmt.Errorf("components: unsupported value kind %d", v.K))
}

// rebuild constructs a value shaped like v from a flat list of terms.
func rebuild(v Val, terms []string) (Val, []string) {
	switch v.K {
	case KScalar, KUnit, KArray, KMapView:
		w := v
		w.S = terms[0]
		return w, terms[1:]
	case KSlice:
		w := v
		w.Arr, w.Off, w.Len, w.Cap = terms[0], terms[1], terms[2], terms[3]
		w.OffBase, w.OffDelta = "", ""
		return w, terms[4:]
	case KArrPtr:
		w := v
		w.Arr = terms[0]
		return w, terms[1:]
	case KStruct, KTuple:
		w := v
		w.Fs = make([]Val, len(v.Fs))
		for i, f := range v.Fs {
			w.Fs[i], terms = rebuild(f, terms)
		}
		return w, terms
	}
	panic("rebuild: unsupported kind")
}

func (c *Ctx) iteVal(cond string, a, b Val) Val {
	if cond == "true" {
		return a
	}
	if cond == "false" {
		return b
	}
	ca, cb := c.components(a), c.components(b)
	if len(ca) != len(cb) {
		panic(fmt.Errorf("iteVal: shape mismatch (%s vs %s)", describe(a), describe(b)))
	}
	ts := make([]string, len(ca))
	for i := range ca {
		ts[i] = ite(cond, ca[i][1], cb[i][1])
	}
	v, _ := rebuild(a, ts)
	return v
}

func (c *Ctx) eqVal(a, b Val) string {
	if a.K == KSeq || b.K == KSeq {
		panic("eqVal on sequences; use seqEq")
	}
	ca, cb := c.components(a), c.components(b)
	if len(ca) != len(cb) {
		panic(fmt.Errorf("eqVal: shape mismatch (%s vs %s)", describe(a), describe(b)))
	}
	var cs []string
	for i := range ca {
		cs = append(cs, eq(ca[i][1], cb[i][1]))
	}
	return and(cs...)
}

func describe(v Val) string {
	t := "<spec>"
	if v.T != nil {
		t = typeStr(v.T)
	}
	return fmt.Sprintf("kind=%d type=%s", v.K, t)
}

// named returns the named struct type behind a pointer or named type.
func namedStruct(t types.Type) *types.Named {
	t = types.Unalias(t)
	if p, ok := t.Underlying().(*types.Pointer); ok {
		t = types.Unalias(p.Elem())
	}
	n, _ := t.(*types.Named)
	if n == nil {
		return nil
	}
	if _, ok := n.Underlying().(*types.Struct); !ok {
		return nil
	}
	return n
}

func fieldIndex(n *types.Named, name string) int {
	st := n.Underlying().(*types.Struct)
	for i := 0; i < st.NumFields(); i++ {
		if st.Field(i).Name() == name {
			return i
		}
	}
	return -1
}

// originKey identifies a struct type declaration independent of instantiation: "pkgpath.Name".
func originKey(n *types.Named) string {
	o := n.Origin().Obj()
	if o.Pkg() == nil {
		return o.Name()
	}
	return o.Pkg().Path() + "." + o.Name()
}

func shortPkg(path string) string {
	if i := strings.LastIndex(path, "/"); i >= 0 {
		return path[i+1:]
	}
	return path
}
