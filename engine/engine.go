package main

// Engine: loads /repo (build tag verif), builds generic SSA, parses contract files, computes write sets.

import (
	"fmt"
	"go/ast"
	"go/token"
	"go/types"
	"path/filepath"
	"sort"
	"strings"

	"golang.org/x/tools/go/packages"
	"golang.org/x/tools/go/ssa"
	"golang.org/x/tools/go/ssa/ssautil"
)

const modPath = "github.com/emirpasic/gods/v2"

type Engine struct {
	fset    *token.FileSet
	prog    *ssa.Program
	pkgs    []*packages.Package
	spkgs   map[string]*ssa.Package  // by short name
	specs   map[string]*SpecFile     // by short package name
	ghosts  map[string]*GhostField   // "pkgpath.Type.field"
	funcs   map[string]*ssa.Function // "pkg.Recv.Name" -> generic function
	wsets   map[*ssa.Function]*WriteSet
	repoDir string
	loadErr []string
}

type WriteSet struct {
	fields map[string]bool // bare field names
	elems  bool
	maps   bool
	allocs bool
	calls  bool // applies function values (comparators / callbacks)
	prints bool // reaches an output primitive
	done   bool
}

func funcKey(fn *ssa.Function) string {
	if fn.Origin() != nil {
		fn = fn.Origin()
	}
	name := fn.Name()
	if recv := fn.Signature.Recv(); recv != nil {
		t := recv.Type()
		if p, ok := t.(*types.Pointer); ok {
			t = p.Elem()
		}
		if n, ok := types.Unalias(t).(*types.Named); ok {
			return n.Obj().Name() + "." + name
		}
	}
	return name
}

func funcPkg(fn *ssa.Function) string {
	if fn.Origin() != nil {
		fn = fn.Origin()
	}
	if fn.Pkg != nil {
		return fn.Pkg.Pkg.Name()
	}
	if fn.Signature.Recv() != nil {
		t := fn.Signature.Recv().Type()
		if p, ok := t.(*types.Pointer); ok {
			t = p.Elem()
		}
		if n, ok := types.Unalias(t).(*types.Named); ok && n.Obj().Pkg() != nil {
			return n.Obj().Pkg().Name()
		}
	}
	return ""
}

func funcPkgPath(fn *ssa.Function) string {
	if fn.Origin() != nil {
		fn = fn.Origin()
	}
	if fn.Pkg != nil {
		return fn.Pkg.Pkg.Path()
	}
	if fn.Signature.Recv() != nil {
		t := fn.Signature.Recv().Type()
		if p, ok := t.(*types.Pointer); ok {
			t = p.Elem()
		}
		if n, ok := types.Unalias(t).(*types.Named); ok && n.Obj().Pkg() != nil {
			return n.Obj().Pkg().Path()
		}
	}
	return ""
}

func fullKey(fn *ssa.Function) string { return funcPkg(fn) + "." + funcKey(fn) }

func inRepo(fn *ssa.Function) bool {
	return strings.HasPrefix(funcPkgPath(fn), modPath)
}

func LoadEngine(repo string) (*Engine, error) {
	e := &Engine{repoDir: repo, spkgs: map[string]*ssa.Package{}, specs: map[string]*SpecFile{}, ghosts: map[string]*GhostField{},
		funcs: map[string]*ssa.Function{}, wsets: map[*ssa.Function]*WriteSet{}}
	cfg := &packages.Config{Mode: packages.LoadAllSyntax, Dir: repo, BuildFlags: []string{"-tags=verif"}, Tests: false}
	pkgs, err := packages.Load(cfg, "./containers/...", "./lists/...", "./maps/...", "./queues/...", "./sets/...", "./stacks/...", "./trees/...", "./utils/...")
	if err != nil {
		return nil, err
	}
	for _, p := range pkgs {
		for _, er := range p.Errors {
			e.loadErr = append(e.loadErr, er.Error())
		}
	}
	if len(e.loadErr) > 0 {
		return nil, fmt.Errorf("package load errors: %s", strings.Join(e.loadErr, "; "))
	}
	e.pkgs = pkgs
	prog, spkgs := ssautil.AllPackages(pkgs, ssa.GlobalDebug)
	prog.Build()
	e.prog = prog
	if len(pkgs) > 0 {
		e.fset = pkgs[0].Fset
	}
	for i, p := range pkgs {
		pkgQualifiers[p.Name] = true
		if spkgs[i] != nil {
			e.spkgs[p.Name] = spkgs[i]
		}
	}
	// functions by key
	for _, sp := range e.spkgs {
		for _, m := range sp.Members {
			switch m := m.(type) {
			case *ssa.Function:
				e.funcs[fullKey(m)] = m
			case *ssa.Type:
				n, ok := m.Type().(*types.Named)
				if !ok {
					continue
				}
				for _, t := range []types.Type{n, types.NewPointer(n)} {
					ms := prog.MethodSets.MethodSet(t)
					for i := 0; i < ms.Len(); i++ {
						fn := prog.MethodValue(ms.At(i))
						if fn != nil && fn.Synthetic == "" {
							e.funcs[fullKey(fn)] = fn
						} else if fn != nil && fn.Origin() != nil {
							e.funcs[fullKey(fn)] = fn.Origin()
						}
					}
				}
				// generic named types: methods are reachable through the object's methods
				for i := 0; i < n.NumMethods(); i++ {
					fn := prog.FuncValue(n.Method(i))
					if fn != nil {
						e.funcs[fullKey(fn)] = fn
					}
				}
			}
		}
	}
	// contract files
	for _, p := range pkgs {
		for i, f := range p.Syntax {
			name := filepath.Base(p.CompiledGoFiles[i])
			if name != "contracts_verif.go" {
				continue
			}
			sf, err := parseSpecFile(p.Name, f, func(n ast.Node) int { return p.Fset.Position(n.Pos()).Line })
			if err != nil {
				return nil, fmt.Errorf("%s: %v", p.CompiledGoFiles[i], err)
			}
			e.specs[p.Name] = sf
			for gi := range sf.Ghosts {
				g := &sf.Ghosts[gi]
				// a ghost field must not reuse the name of a real field of its owner: the two would be conflated in
				// every predicate (found the hard way: avltree's ghost interval end "b" vs. the balance factor "b")
				if obj := p.Types.Scope().Lookup(g.Owner); obj != nil {
					if st, ok := obj.Type().Underlying().(*types.Struct); ok {
						for fi := 0; fi < st.NumFields(); fi++ {
							if st.Field(fi).Name() == g.Name {
								return nil, fmt.Errorf("%s: ghost field %s.%s has the name of a real field", p.CompiledGoFiles[i], g.Owner, g.Name)
							}
						}
					}
				}
				e.ghosts[p.PkgPath+"."+g.Owner+"."+g.Name] = g
			}
		}
	}
	return e, nil
}

func (e *Engine) specFor(fn *ssa.Function) *FuncSpec {
	sf := e.specs[funcPkg(fn)]
	if sf == nil {
		return nil
	}
	return sf.Funcs[funcKey(fn)]
}

func (e *Engine) pred(pkg, name string) *PredDef {
	if i := strings.Index(name, "."); i >= 0 {
		pkg, name = name[:i], name[i+1:]
	}
	if sf := e.specs[pkg]; sf != nil {
		if p := sf.Preds[name]; p != nil {
			return p
		}
	}
	return nil
}

func (e *Engine) posOf(p token.Pos) string {
	if !p.IsValid() {
		return ""
	}
	pos := e.fset.Position(p)
	rel, err := filepath.Rel(e.repoDir, pos.Filename)
	if err != nil {
		rel = pos.Filename
	}
	return fmt.Sprintf("%s:%d", rel, pos.Line)
}

// ---------- write sets ----------

var outputFuncs = map[string]bool{
	"fmt.Println": true, "fmt.Printf": true, "fmt.Print": true, "fmt.Fprintln": true, "fmt.Fprintf": true, "fmt.Fprint": true,
	"log.Println": true, "log.Printf": true, "log.Print": true, "log.Fatal": true, "log.Fatalf": true, "log.Fatalln": true,
	"log.Panic": true, "log.Panicf": true, "log.Panicln": true, "os.(*File).Write": true, "os.(*File).WriteString": true,
}

func staticCalleeOf(c *ssa.CallCommon) *ssa.Function {
	if c.IsInvoke() {
		return nil
	}
	switch v := c.Value.(type) {
	case *ssa.Function:
		return v
	case *ssa.MakeClosure:
		return v.Fn.(*ssa.Function)
	}
	return nil
}

func extName(fn *ssa.Function) string {
	if fn.Origin() != nil {
		fn = fn.Origin()
	}
	if fn.Signature.Recv() != nil {
		return fn.RelString(nil)
	}
	if fn.Pkg != nil {
		return fn.Pkg.Pkg.Path() + "." + fn.Name()
	}
	return fn.Name()
}

func (e *Engine) writeSet(fn *ssa.Function) *WriteSet {
	if fn.Origin() != nil {
		fn = fn.Origin()
	}
	if ws, ok := e.wsets[fn]; ok {
		return ws
	}
	ws := &WriteSet{fields: map[string]bool{}}
	e.wsets[fn] = ws
	// fixpoint by simple re-iteration
	for iter := 0; iter < 4; iter++ {
		e.scanWrites(fn, fn.Blocks, ws, map[*ssa.Function]bool{fn: true})
	}
	ws.done = true
	return ws
}

func (e *Engine) scanWrites(fn *ssa.Function, blocks []*ssa.BasicBlock, ws *WriteSet, visiting map[*ssa.Function]bool) {
	if spec := e.specFor(fn); spec != nil {
		for _, g := range spec.Ghost {
			ws.fields[g.Field] = true
		}
		for _, m := range spec.Modifies {
			switch m.Kind {
			case "field":
				ws.fields[m.Field] = true
			case "each":
				for _, f := range m.Fields {
					ws.fields[f] = true
				}
			case "deref":
				ws.fields["Root"] = true
				ws.fields["Children"] = true
			}
		}
	}
	for _, b := range blocks {
		for _, ins := range b.Instrs {
			switch ins := ins.(type) {
			case *ssa.Store:
				e.noteStoreTarget(ins.Addr, ws)
			case *ssa.MapUpdate:
				ws.maps = true
			case *ssa.Alloc:
				if ins.Heap || true {
					ws.allocs = true
					// zero-initialisation writes every field of a freshly allocated struct
					if n := namedStruct(ins.Type()); n != nil {
						e.noteStructFields(n, ws, 0)
					}
				}
			case *ssa.MakeSlice:
				ws.allocs, ws.elems = true, true
			case *ssa.MakeMap:
				ws.allocs, ws.maps = true, true
			case ssa.CallInstruction:
				c := ins.Common()
				if c.IsInvoke() {
					ws.calls = true
					ws.allocs = true
					continue
				}
				if b, ok := c.Value.(*ssa.Builtin); ok {
					switch b.Name() {
					case "append", "copy", "clear":
						ws.elems, ws.allocs = true, true
						if b.Name() == "clear" {
							ws.maps = true
						}
					case "delete":
						ws.maps = true
					case "print", "println":
						ws.prints = true
					}
					continue
				}
				callee := staticCalleeOf(c)
				if callee == nil {
					ws.calls = true
					continue
				}
				if callee.Origin() != nil {
					callee = callee.Origin()
				}
				if !inRepo(callee) {
					name := extName(callee)
					if outputFuncs[name] {
						ws.prints = true
					}
					switch {
					case name == "slices.Index" || name == "slices.Contains" || name == "slices.Equal":
					case strings.HasPrefix(name, "slices."):
						ws.elems, ws.allocs = true, true
						if strings.Contains(name, "Func") {
							ws.calls = true
						}
					case strings.HasPrefix(name, "encoding/json."):
						ws.elems, ws.allocs, ws.maps = true, true, true
					default:
						ws.allocs = true
					}
					continue
				}
				if visiting[callee] {
					continue
				}
				var cw *WriteSet
				if w, ok := e.wsets[callee]; ok && w.done {
					cw = w
				} else {
					cw = &WriteSet{fields: map[string]bool{}}
					visiting[callee] = true
					for iter := 0; iter < 2; iter++ {
						e.scanWrites(callee, callee.Blocks, cw, visiting)
					}
					delete(visiting, callee)
				}
				for f := range cw.fields {
					ws.fields[f] = true
				}
				ws.elems = ws.elems || cw.elems
				ws.maps = ws.maps || cw.maps
				ws.allocs = ws.allocs || cw.allocs
				ws.calls = ws.calls || cw.calls
				ws.prints = ws.prints || cw.prints
			}
		}
	}
}

func (e *Engine) noteStructFields(n *types.Named, ws *WriteSet, depth int) {
	st := n.Underlying().(*types.Struct)
	for i := 0; i < st.NumFields(); i++ {
		ws.fields[st.Field(i).Name()] = true
		if depth < 3 && isEmbeddedStructField(st.Field(i).Type()) {
			if sub, ok := types.Unalias(st.Field(i).Type()).(*types.Named); ok {
				e.noteStructFields(sub, ws, depth+1)
			}
		}
	}
	// ghost fields
	for k, g := range e.ghosts {
		if strings.HasPrefix(k, originKey(n)+".") {
			ws.fields[g.Name] = true
		}
	}
}

func (e *Engine) noteStoreTarget(addr ssa.Value, ws *WriteSet) {
	switch a := addr.(type) {
	case *ssa.FieldAddr:
		st := a.X.Type().Underlying().(*types.Pointer).Elem().Underlying().(*types.Struct)
		f := st.Field(a.Field)
		ws.fields[f.Name()] = true
		if isEmbeddedStructField(f.Type()) {
			if sub, ok := types.Unalias(f.Type()).(*types.Named); ok {
				e.noteStructFields(sub, ws, 0)
			}
		}
	case *ssa.IndexAddr:
		// slice element, heap array element or array-typed field element
		if fa, ok := a.X.(*ssa.FieldAddr); ok {
			st := fa.X.Type().Underlying().(*types.Pointer).Elem().Underlying().(*types.Struct)
			ws.fields[st.Field(fa.Field).Name()] = true
		}
		ws.elems = true
	case *ssa.Alloc:
		// local cell or whole-struct store into a fresh object
		if n := namedStruct(a.Type()); n != nil {
			e.noteStructFields(n, ws, 0)
		}
	default:
		// store through a pointer value of unknown provenance (parameter **T etc.)
		if p, ok := addr.Type().Underlying().(*types.Pointer); ok {
			if n := namedStruct(p.Elem()); n != nil {
				e.noteStructFields(n, ws, 0)
			} else {
				ws.fields["*"] = true
				ws.elems = true
			}
		}
	}
}

// ---------- loops ----------

type loopInfo struct {
	header *ssa.BasicBlock
	ord    int
	blocks map[*ssa.BasicBlock]bool
	back   []*ssa.BasicBlock // sources of back edges
}

func findLoops(fn *ssa.Function) []*loopInfo {
	byHeader := map[*ssa.BasicBlock]*loopInfo{}
	for _, b := range fn.Blocks {
		for _, s := range b.Succs {
			if s.Dominates(b) {
				li := byHeader[s]
				if li == nil {
					li = &loopInfo{header: s, blocks: map[*ssa.BasicBlock]bool{s: true}}
					byHeader[s] = li
				}
				li.back = append(li.back, b)
				// natural loop: reverse reachability from b without passing the header
				var stack []*ssa.BasicBlock
				if !li.blocks[b] {
					li.blocks[b] = true
					stack = append(stack, b)
				}
				for len(stack) > 0 {
					n := stack[len(stack)-1]
					stack = stack[:len(stack)-1]
					for _, p := range n.Preds {
						if !li.blocks[p] {
							li.blocks[p] = true
							stack = append(stack, p)
						}
					}
				}
			}
		}
	}
	var ls []*loopInfo
	for _, li := range byHeader {
		ls = append(ls, li)
	}
	sort.Slice(ls, func(i, j int) bool { return ls[i].header.Index < ls[j].header.Index })
	for i, li := range ls {
		li.ord = i + 1
	}
	return ls
}

func topoOrder(fn *ssa.Function) []*ssa.BasicBlock {
	var order []*ssa.BasicBlock
	seen := map[*ssa.BasicBlock]bool{}
	var dfs func(b *ssa.BasicBlock)
	dfs = func(b *ssa.BasicBlock) {
		seen[b] = true
		for _, s := range b.Succs {
			if s.Dominates(b) { // back edge
				continue
			}
			if !seen[s] {
				dfs(s)
			}
		}
		order = append(order, b)
	}
	if len(fn.Blocks) > 0 {
		dfs(fn.Blocks[0])
	}
	for i, j := 0, len(order)-1; i < j; i, j = i+1, j-1 {
		order[i], order[j] = order[j], order[i]
	}
	return order
}

// ---------- allocation types (which struct instantiations a call may allocate) ----------

func substKey(s TSubst) string {
	var parts []string
	for k, v := range s {
		parts = append(parts, k.Obj().Name()+fmt.Sprintf("@%p", k)+"="+typeStr(v))
	}
	sort.Strings(parts)
	return strings.Join(parts, ",")
}

// allocTypes returns the set of (resolved) struct type strings that fn may allocate, transitively through static
// calls inside /repo, with fn's type parameters interpreted through subst. ok=false: unknown (dynamic/interface call
// into repo code or depth exceeded) — the caller must then assume anything may be allocated.
func (e *Engine) allocTypes(fn *ssa.Function, subst TSubst, depth int, visiting map[string]bool, out map[string]bool) bool {
	if fn.Origin() != nil {
		fn = fn.Origin()
	}
	key := fullKey(fn) + "|" + substKey(subst)
	if visiting[key] {
		return true
	}
	if depth > 12 {
		return false
	}
	visiting[key] = true
	ok := true
	for _, b := range fn.Blocks {
		for _, ins := range b.Instrs {
			switch ins := ins.(type) {
			case *ssa.Alloc:
				t := subst.apply(ins.Type().Underlying().(*types.Pointer).Elem())
				if n, isN := types.Unalias(t).(*types.Named); isN {
					e.noteAllocType(n, out, 0)
				}
			case ssa.CallInstruction:
				c := ins.Common()
				if c.IsInvoke() {
					continue // interface calls reach external code or Values(); they allocate slices only
				}
				callee := staticCalleeOf(c)
				if callee == nil || !inRepo(callee) {
					continue
				}
				g := callee
				cs := TSubst{}
				if callee.Origin() != nil {
					g = callee.Origin()
					tps := g.TypeParams()
					targs := callee.TypeArgs()
					for i := 0; i < tps.Len() && i < len(targs); i++ {
						cs[tps.At(i)] = subst.apply(targs[i])
					}
				}
				for i, p := range g.Params {
					if i < len(c.Args) {
						unify(p.Type(), subst.apply(c.Args[i].Type()), cs)
					}
				}
				if !e.allocTypes(g, cs, depth+1, visiting, out) {
					ok = false
				}
			}
		}
	}
	return ok
}

func (e *Engine) noteAllocType(n *types.Named, out map[string]bool, depth int) {
	out[typeStr(n)] = true
	st, ok := n.Underlying().(*types.Struct)
	if !ok || depth > 3 {
		return
	}
	for i := 0; i < st.NumFields(); i++ {
		if isEmbeddedStructField(st.Field(i).Type()) {
			if sub, ok := types.Unalias(st.Field(i).Type()).(*types.Named); ok {
				e.noteAllocType(sub, out, depth+1)
			}
		}
	}
}
