package main

// SMT context: ordered list of commands (declarations, definitions, assumptions),
// named obligations that snapshot a prefix of that list, and a solver portfolio.

import (
	"bytes"
	"context"
	"fmt"
	"os"
	"os/exec"
	"path/filepath"
	"regexp"
	"runtime"
	"sort"
	"strings"
	"sync"
	"time"
)

type Obligation struct {
	Name      string // pkg.Recv.Func:kind[:label]
	Func      string // function under contract this belongs to
	Kind      string
	Props     []string // property tags (empty = belongs to every property the function serves)
	Prefix    int      // number of ctx items visible
	Guard     string   // path condition
	Goal      string
	Ctx       *Ctx
	Pos       string
	Result    string // "unsat" (discharged), "sat", "unknown", "timeout"
	Solver    string
	TimeS     float64
	Model     string
	Expected  string // "" normally; "sat" for cover checks
	Bounded   string // non-empty: bounded obligation with this scope
	Text      string // source text of the clause
	Retried   bool
	Alts      []AltGoal // pieces of the goal (each must be discharged) tried when the whole goal is not
	Budget    int       // time budget multiplier (0 = 1)
	Focus     []string  // tag globs: labelled assumptions to keep in the focused attempt (nil: none)
	useFocus  bool
	FailedAlt string
}

type AltGoal struct {
	Text string
	Goal string
}

type Ctx struct {
	tags   map[int]string // item index -> tag of a labelled assumption (see FocusSpec)
	alts   map[int]string // item index -> variant for solvers without lambda support (cvc5)
	items  []string
	sorts  map[string]bool
	funs   map[string]string // declared function/const name -> sort signature
	n      int
	obls   []*Obligation
	fnName string
}

func NewCtx(fn string) *Ctx {
	return &Ctx{sorts: map[string]bool{}, funs: map[string]string{}, fnName: fn, alts: map[int]string{}}
}

func (c *Ctx) DeclSort(s string) {
	if !c.sorts[s] {
		c.sorts[s] = true
		c.items = append(c.items, fmt.Sprintf("(declare-sort %s 0)", s))
	}
}

func sanitize(s string) string {
	var b strings.Builder
	for _, r := range s {
		switch {
		case r >= 'a' && r <= 'z', r >= 'A' && r <= 'Z', r >= '0' && r <= '9', r == '_':
			b.WriteRune(r)
		case r == '.', r == '/':
			b.WriteRune('_')
		case r == '[':
			b.WriteString("_L")
		case r == ']':
			b.WriteString("R_")
		case r == '*':
			b.WriteString("P")
		case r == ',':
			b.WriteString("_")
		case r == ' ':
		default:
			b.WriteString("_")
		}
	}
	return b.String()
}

func (c *Ctx) fresh(prefix string) string {
	c.n++
	return fmt.Sprintf("%s!%d", sanitize(prefix), c.n)
}

// ensureSorts declares the uninterpreted sorts mentioned in a sort expression.
func (c *Ctx) ensureSorts(sort string) {
	for _, t := range tokens(sort) {
		if strings.HasPrefix(t, "TP_") || t == "Str" || t == "Unit" {
			c.DeclSort(t)
		}
	}
}

// Fresh declares a new uninterpreted constant.
func (c *Ctx) Fresh(prefix, sort string) string {
	c.ensureSorts(sort)
	name := c.fresh(prefix)
	c.items = append(c.items, fmt.Sprintf("(declare-fun %s () %s)", name, sort))
	c.funs[name] = sort
	return name
}

// Define introduces a name for a term (macro); returns the name.
func (c *Ctx) Define(prefix, sort, term string) string {
	if isAtom(term) {
		return term
	}
	name := c.fresh(prefix)
	c.items = append(c.items, fmt.Sprintf("(define-fun %s () %s %s)", name, sort, term))
	c.funs[name] = sort
	return name
}

func isAtom(t string) bool {
	return !strings.ContainsAny(t, " ()")
}

// DeclFun declares a global uninterpreted function once.
func (c *Ctx) DeclFun(name string, args []string, res string) {
	if _, ok := c.funs[name]; ok {
		return
	}
	c.ensureSorts(strings.Join(args, " ") + " " + res)
	c.funs[name] = "(" + strings.Join(args, " ") + ") " + res
	c.items = append(c.items, fmt.Sprintf("(declare-fun %s (%s) %s)", name, strings.Join(args, " "), res))
}

// ConstArr returns an array term whose every element is val (cvc5 accepts `as const` only for value terms).
func (c *Ctx) ConstArr(ksort, vsort, val string) string {
	switch val {
	case "0", "false", "true", "0.0":
		return fmt.Sprintf("((as const %s) %s)", arrSort(ksort, vsort), val)
	}
	name := "constarr_" + sanitize(ksort+"_"+vsort+"_"+val)
	if _, ok := c.funs[name]; !ok {
		c.DeclFun(name, nil, arrSort(ksort, vsort))
		c.Assume(fmt.Sprintf("(forall ((i %s)) (! (= (select %s i) %s) :pattern ((select %s i))))", ksort, name, val, name))
	}
	return name
}

var useLambda = os.Getenv("GOVC_LAMBDA") != "0"

// DefineArrLambda defines an array pointwise: name[r] = body(r). z3 gets a lambda term (selects beta-reduce, no
// quantifier instantiation needed); cvc5 gets a constant with the defining quantified axiom.
func (c *Ctx) DefineArrLambda(prefix, ksort, vsort string, body func(r string) string) string {
	c.ensureSorts(ksort + " " + vsort)
	name := c.fresh(prefix)
	r := c.boundVar("r")
	b := body(r)
	srt := arrSort(ksort, vsort)
	quant := fmt.Sprintf("(declare-fun %s () %s)\n(assert (forall ((%s %s)) (! (= (select %s %s) %s) :pattern ((select %s %s)))))", name, srt, r, ksort, name, r, b, name, r)
	if useLambda {
		c.items = append(c.items, fmt.Sprintf("(define-fun %s () %s (lambda ((%s %s)) %s))", name, srt, r, ksort, b))
		c.alts[len(c.items)-1] = quant
	} else {
		c.items = append(c.items, quant)
	}
	c.funs[name] = srt
	return name
}

func (c *Ctx) Assume(term string) {
	if term == "true" {
		return
	}
	c.items = append(c.items, fmt.Sprintf("(assert %s)", term))
}

// AssumeTagged: an assumption that a focused proof attempt may drop (tag names where it comes from).
func (c *Ctx) AssumeTagged(tag, term string) {
	if term == "true" {
		return
	}
	if c.tags == nil {
		c.tags = map[int]string{}
	}
	c.items = append(c.items, "; tag "+tag)
	c.tags[len(c.items)] = tag
	c.items = append(c.items, fmt.Sprintf("(assert %s)", term))
}

func globMatch(pat, s string) bool {
	re := "^" + strings.ReplaceAll(regexp.QuoteMeta(pat), `\*`, ".*") + "$"
	ok, _ := regexp.MatchString(re, s)
	return ok
}

func (c *Ctx) Comment(s string) {
	c.items = append(c.items, "; "+strings.ReplaceAll(s, "\n", " "))
}

func (c *Ctx) Oblige(o *Obligation) {
	o.Prefix = len(c.items)
	o.Ctx = c
	c.obls = append(c.obls, o)
}

// ---- term helpers ----

func app(op string, args ...string) string {
	return "(" + op + " " + strings.Join(args, " ") + ")"
}
func and(xs ...string) string {
	var ys []string
	for _, x := range xs {
		if x == "true" || x == "" {
			continue
		}
		if x == "false" {
			return "false"
		}
		ys = append(ys, x)
	}
	if len(ys) == 0 {
		return "true"
	}
	if len(ys) == 1 {
		return ys[0]
	}
	return app("and", ys...)
}
func or(xs ...string) string {
	var ys []string
	for _, x := range xs {
		if x == "false" || x == "" {
			continue
		}
		if x == "true" {
			return "true"
		}
		ys = append(ys, x)
	}
	if len(ys) == 0 {
		return "false"
	}
	if len(ys) == 1 {
		return ys[0]
	}
	return app("or", ys...)
}
func not(x string) string {
	if x == "true" {
		return "false"
	}
	if x == "false" {
		return "true"
	}
	return app("not", x)
}
func implies(a, b string) string {
	if a == "true" {
		return b
	}
	if b == "true" || a == "false" {
		return "true"
	}
	return app("=>", a, b)
}
func eq(a, b string) string {
	if a == b {
		return "true"
	}
	return app("=", a, b)
}
func ite(c, a, b string) string {
	if c == "true" {
		return a
	}
	if c == "false" {
		return b
	}
	if a == b {
		return a
	}
	return app("ite", c, a, b)
}
func sel(a, i string) string      { return app("select", a, i) }
func store(a, i, v string) string { return app("store", a, i, v) }
func num(n int64) string {
	if n < 0 {
		return fmt.Sprintf("(- %d)", -n)
	}
	return fmt.Sprintf("%d", n)
}
func arrSort(k, v string) string { return "(Array " + k + " " + v + ")" }

// ---- solving ----

type SolverCfg struct {
	Name string
	Argv []string // file appended
}

// procSlots bounds the number of solver processes running at any time (see runSolverCtx).
var procSlots = make(chan struct{}, maxInt(2, runtime.NumCPU()))

func maxInt(a, b int) int {
	if a > b {
		return a
	}
	return b
}

var solvers = []SolverCfg{
	{"z3-new", []string{"z3-new", "-smt2"}},
	{"z3", []string{"z3", "-smt2"}},
	{"cvc5", []string{"cvc5", "--lang=smt2"}},
}

func (o *Obligation) Script(forSolver string, timeoutMs int, wantModel bool) string {
	var b bytes.Buffer
	if forSolver == "cvc5" {
		if wantModel {
			b.WriteString("(set-option :produce-models true)\n")
		}
		b.WriteString("(set-logic ALL)\n")
	} else {
		fmt.Fprintf(&b, "(set-option :timeout %d)\n", timeoutMs)
		if wantModel {
			b.WriteString("(set-option :produce-models true)\n")
		}
	}
	items := o.Ctx.items[:o.Prefix]
	if forSolver == "cvc5" && len(o.Ctx.alts) > 0 {
		cp := make([]string, len(items))
		copy(cp, items)
		for i, a := range o.Ctx.alts {
			if i < len(cp) {
				cp[i] = a
			}
		}
		items = cp
	}
	if o.useFocus && len(o.Ctx.tags) > 0 {
		cp := make([]string, len(items))
		copy(cp, items)
		for i, tag := range o.Ctx.tags {
			if i >= len(cp) {
				continue
			}
			keep := false
			for _, pat := range o.Focus {
				keep = keep || globMatch(pat, tag)
			}
			if !keep {
				cp[i] = "; dropped by focus: " + tag
			}
		}
		items = cp
	}
	b.WriteString(relevantItems(items, o.Guard+" "+o.Goal))
	fmt.Fprintf(&b, "; obligation %s\n", o.Name)
	fmt.Fprintf(&b, "(assert (not %s))\n", implies(o.Guard, o.Goal))
	b.WriteString("(check-sat)\n")
	if wantModel {
		b.WriteString("(get-model)\n")
	}
	return b.String()
}

// relevantItems keeps declarations/definitions reachable from the goal and all assertions
// (assertions are kept unconditionally; unused definitions are dropped to keep queries small).
func relevantItems(items []string, goal string) string {
	// collect the defined/declared name of each item
	type it struct {
		name string
		text string
		keep bool
	}
	its := make([]it, len(items))
	byName := map[string]int{}
	for i, s := range items {
		its[i].text = s
		if strings.HasPrefix(s, "(define-fun ") || strings.HasPrefix(s, "(declare-fun ") {
			rest := s[strings.Index(s, " ")+1:]
			sp := strings.IndexAny(rest, " ")
			its[i].name = rest[:sp]
			byName[its[i].name] = i
		} else {
			its[i].keep = true
		}
	}
	// worklist over symbols
	var work []string
	work = append(work, goal)
	for i := range its {
		if its[i].keep && !strings.HasPrefix(its[i].text, ";") {
			work = append(work, its[i].text)
		}
	}
	seen := map[string]bool{}
	for len(work) > 0 {
		t := work[len(work)-1]
		work = work[:len(work)-1]
		for _, tok := range tokens(t) {
			if seen[tok] {
				continue
			}
			seen[tok] = true
			if j, ok := byName[tok]; ok && !its[j].keep {
				its[j].keep = true
				work = append(work, its[j].text)
			}
		}
	}
	var b strings.Builder
	for i := range its {
		if its[i].keep {
			b.WriteString(its[i].text)
			b.WriteByte('\n')
		}
	}
	return b.String()
}

func tokens(s string) []string {
	f := func(r rune) bool { return r == ' ' || r == '(' || r == ')' || r == '\n' || r == '\t' }
	return strings.FieldsFunc(s, f)
}

type SolveOpts struct {
	NoRetry   bool
	TimeoutMs int
	Dir       string
	Seed      int
	Solvers   []string
}

func runSolver(sc SolverCfg, script string, dir string, name string, timeoutMs int) (string, string, float64) {
	return runSolverCtx(context.Background(), sc, script, dir, name, timeoutMs)
}

// runSolverCtx: as runSolver; cancelling parent kills the solver process (used when another portfolio member has won).
func runSolverCtx(parent context.Context, sc SolverCfg, script string, dir string, name string, timeoutMs int) (string, string, float64) {
	file := filepath.Join(dir, sanitize(name)+"."+sc.Name+".smt2")
	os.WriteFile(file, []byte(script), 0o644)
	defer os.Remove(file)
	// at most one solver process per core: a time-out is a CPU budget only if the process is not fighting for a core
	select {
	case procSlots <- struct{}{}:
		defer func() { <-procSlots }()
	case <-parent.Done():
		return "timeout", "cancelled before start", 0
	}
	ctx, cancel := context.WithTimeout(parent, time.Duration(timeoutMs+2000)*time.Millisecond)
	defer cancel()
	argv := append([]string{}, sc.Argv...)
	if sc.Name == "cvc5" {
		argv = append(argv, fmt.Sprintf("--tlimit=%d", timeoutMs))
	}
	argv = append(argv, file)
	cmd := exec.CommandContext(ctx, argv[0], argv[1:]...)
	var out bytes.Buffer
	cmd.Stdout = &out
	cmd.Stderr = &out
	t0 := time.Now()
	cmd.Run()
	el := time.Since(t0).Seconds()
	s := out.String()
	first := ""
	for _, ln := range strings.Split(s, "\n") {
		// z3 prints pattern warnings before the verdict; they do not affect soundness (the pattern is ignored)
		if ln = strings.TrimSpace(ln); ln != "" && !strings.HasPrefix(ln, "WARNING") {
			first = ln
			break
		}
	}
	switch first {
	case "unsat", "sat", "unknown":
	default:
		if ctx.Err() != nil || strings.Contains(s, "timeout") || strings.Contains(s, "interrupted") {
			first = "timeout"
		} else {
			first = "error:" + first
		}
	}
	return first, s, el
}

// Solve discharges the obligation: the whole goal first; if that is not decided and the goal has pieces
// (a universally quantified conjunction), every piece separately.
func (o *Obligation) Solve(opts SolveOpts) {
	if o.Budget > 1 {
		opts.TimeoutMs *= o.Budget
	}
	if len(o.Focus) > 0 && o.Expected == "" {
		o.useFocus = true
		o.solveGoal(opts)
		o.useFocus = false
		if o.Result == "unsat" {
			o.Solver += "+focus"
			return
		}
		o.Model = ""
	}
	if len(o.Alts) == 0 || o.Expected != "" {
		o.solveGoal(opts)
		return
	}
	// whole goal on a quarter of the budget, then the pieces, then the whole goal on the full budget
	total := 0.0
	if !o.Retried {
		short := opts
		short.TimeoutMs = opts.TimeoutMs / 4
		if short.TimeoutMs < 1000 {
			short.TimeoutMs = 1000
		}
		o.solveGoal(short)
		if o.Result == "unsat" || o.Result == "sat" {
			return
		}
		total = o.TimeS
	}
	whole := o.Goal
	failed := ""
	pieceRes := "unsat"
	for _, a := range o.Alts {
		o.Goal = a.Goal
		o.Model = ""
		o.solveGoal(opts)
		total += o.TimeS
		if o.Result != "unsat" {
			failed, pieceRes = a.Text, o.Result
			break
		}
	}
	o.Goal = whole
	if failed == "" {
		o.Result, o.Solver, o.TimeS = "unsat", o.Solver+"+split", total
		return
	}
	o.Model = ""
	o.solveGoal(opts)
	o.TimeS += total
	if o.Result != "unsat" && o.Result != "sat" {
		o.FailedAlt = failed
		if pieceRes == "sat" {
			o.Result = "sat"
		}
	}
}

// solveGoal runs the portfolio on the current goal: first unsat wins.
func (o *Obligation) solveGoal(opts SolveOpts) {
	want := "unsat"
	order := []SolverCfg{}
	for _, n := range opts.Solvers {
		for _, sc := range solvers {
			if sc.Name == n {
				order = append(order, sc)
			}
		}
	}
	if len(order) == 0 {
		order = solvers
	}
	t0 := time.Now()
	type res struct {
		r, out, solver string
		t              float64
	}
	// Stage 1: the first solver alone with a short budget; stage 2: all in parallel with the full budget.
	first := order[0]
	short := opts.TimeoutMs / 4
	if short < 1500 {
		short = 1500
	}
	wantModel := o.Expected == "sat"
	if o.Expected == "sat" {
		// vacuity cover: one solver, short budget; anything but a definite unsat is fine
		r, _, _ := runSolver(first, o.Script(first.Name, 800, false), opts.Dir, o.Name, 800)
		o.Result, o.Solver, o.TimeS = r, first.Name, time.Since(t0).Seconds()
		return
	}
	r, out, el1 := runSolver(first, o.Script(first.Name, short, wantModel), opts.Dir, o.Name, short)
	if r == want || r == "sat" {
		o.Result, o.Solver, o.TimeS = r, first.Name, el1
		if r == "sat" {
			o.Model = out
		}
		return
	}
	ch := make(chan res, len(order))
	pctx, pcancel := context.WithCancel(context.Background())
	defer pcancel() // the losers of the race are killed as soon as one member has decided the goal
	for _, sc := range order {
		sc := sc
		go func() {
			r, out, t := runSolverCtx(pctx, sc, o.Script(sc.Name, opts.TimeoutMs, wantModel), opts.Dir, o.Name, opts.TimeoutMs)
			ch <- res{r, out, sc.Name, t}
		}()
	}
	best := res{r: "unknown"}
	maxT := 0.0
	for range order {
		x := <-ch
		if x.t > maxT {
			maxT = x.t
		}
		if x.r == "unsat" || x.r == "sat" {
			best = x
			break
		}
		if strings.HasPrefix(x.r, "error") && best.r == "unknown" {
			best = x
		}
		if x.r == "timeout" && best.r == "unknown" {
			best = x
		}
	}
	// solver time (process time of the slowest member seen before the verdict), not time spent waiting for a core
	o.Result, o.Solver, o.TimeS = best.r, best.solver, el1+maxT
	if best.r == "sat" || strings.HasPrefix(best.r, "error") {
		o.Model = best.out
	}
}

// SolveAll discharges obligations in parallel.
func SolveAll(obls []*Obligation, opts SolveOpts, par int) {
	var wg sync.WaitGroup
	sem := make(chan struct{}, par)
	for _, o := range obls {
		o := o
		wg.Add(1)
		sem <- struct{}{}
		go func() {
			defer wg.Done()
			defer func() { <-sem }()
			o.Solve(opts)
		}()
	}
	wg.Wait()
	// second chance: an obligation that ran out of time under load is retried with three times the budget and little
	// parallelism before it may be reported (a time-out is "undecided", and load must not turn it into an alarm)
	var retry []*Obligation
	for _, o := range obls {
		if o.Expected == "" && o.Result != "unsat" && o.Result != "sat" {
			retry = append(retry, o)
		}
	}
	// one more chance: 4x the budget at parallelism 4 (a proof that needs 8 s on an idle machine still passes at 5x load)
	for _, round := range []struct{ mult, par int }{{4, 4}} {
		if len(retry) == 0 || opts.NoRetry {
			break
		}
		o2 := opts
		o2.TimeoutMs = opts.TimeoutMs * round.mult
		sem2 := make(chan struct{}, round.par)
		var wg2 sync.WaitGroup
		for _, o := range retry {
			o := o
			wg2.Add(1)
			sem2 <- struct{}{}
			go func() {
				defer wg2.Done()
				defer func() { <-sem2 }()
				first := o.TimeS
				o.Retried = true
				o.Solve(o2)
				o.TimeS += first
			}()
		}
		wg2.Wait()
		var still []*Obligation
		for _, o := range retry {
			if o.Result != "unsat" && o.Result != "sat" {
				still = append(still, o)
			}
		}
		retry = still
		if len(retry) > 6 {
			break // many undecided obligations: a real change, not load; do not spend minutes on each
		}
	}
	sort.SliceStable(obls, func(i, j int) bool { return obls[i].Name < obls[j].Name })
}

func (o *Obligation) setAlts(cs []conjunct) *Obligation {
	for _, c := range cs {
		o.Alts = append(o.Alts, AltGoal{c.Text, c.Term})
	}
	return o
}
