package main

// Assumed contracts of functions outside /repo (A-SLICES, A-STD, A-JSON). Every use is recorded in
// Exec.externals and listed in evidence under "assumed_contracts".

import (
	"fmt"
	"go/types"
	"strings"

	"golang.org/x/tools/go/ssa"
)

func (a *Activation) external(ins *ssa.Call, callee *ssa.Function, args []Val, st *State, rc *string) Val {
	x := a.x
	c := x.ctx
	name := extName(callee)
	x.externals[name] = true
	rt := a.typ(ins.Type())
	iname := ins.Name()
	if outputFuncs[name] {
		x.oblige(a.oname("silent"), "", *rc, "false", ins.Pos(), nil, name+" writes to standard output/error")
		return c.havocResult(a, rt, st, iname)
	}
	switch name {
	case "fmt.Sprintf", "fmt.Sprint", "fmt.Sprintln", "strconv.FormatInt", "strconv.FormatUint", "strconv.FormatFloat", "strconv.FormatBool", "strconv.Itoa":
		c.DeclSort("Str")
		return scalar(rt, c.Fresh(iname, "Str"))
	case "strings.Join":
		// result is an uninterpreted function of the element sequence; only totality/purity is assumed
		c.DeclSort("Str")
		return scalar(rt, c.Fresh(iname, "Str"))
	case "strings.Repeat":
		c.DeclSort("Str")
		// panics on negative count
		x.oblige(a.oname("safe-call"), "strings.Repeat", *rc, app(">=", args[1].S, "0"), ins.Pos(), nil, "strings.Repeat: negative count")
		return scalar(rt, c.Fresh(iname, "Str"))
	case "strings.TrimRight":
		// result is a prefix of the argument; for a cutset of spaces a non-space-terminated literal prefix survives
		c.DeclSort("Str")
		c.DeclFun("str_trimright", []string{"Str", "Str"}, "Str")
		c.DeclFun("str_hasprefix", []string{"Str", "Str"}, "Bool")
		r := app("str_trimright", args[0].S, args[1].S)
		return scalar(rt, c.Define(iname, "Str", r))
	case "strings.HasPrefix", "strings.HasSuffix":
		return scalar(rt, c.Fresh(iname, "Bool"))
	case "slices.Clone":
		s := args[0]
		et := s.T.Underlying().(*types.Slice).Elem()
		srt := c.sortOf(et)
		fresh := app("+", st.alloc, "1")
		isNil := eq(s.Arr, "0")
		arr := c.Define(iname+"_arr", "Int", ite(isNil, "0", fresh))
		old := x.elemsArr(st, srt)
		j := c.boundVar("j")
		row := c.Fresh("row", arrSort("Int", srt))
		c.Assume(fmt.Sprintf("(forall ((%s Int)) (! (=> (and (<= 0 %s) (< %s %s)) (= (select %s %s) (select (select %s %s) (+ %s %s)))) :pattern ((select %s %s))))",
			j, j, j, s.Len, row, j, old, s.Arr, s.Off, j, row, j))
		st.elems[srt] = c.Define("E_"+srt, arrSort("Int", arrSort("Int", srt)), ite(isNil, old, store(old, fresh, row)))
		st.alloc = c.Define("alloc", "Int", ite(isNil, st.alloc, fresh))
		cp := c.Fresh(iname+"_cap", "Int")
		c.Assume(and(app(">=", cp, s.Len), implies(isNil, eq(cp, "0"))))
		return Val{K: KSlice, T: s.T, Arr: arr, Off: "0", Len: s.Len, Cap: cp}
	case "slices.Index":
		s, v := args[0], args[1]
		et := s.T.Underlying().(*types.Slice).Elem()
		r := c.Fresh(iname, "Int")
		at := func(i string) string { return x.loadElem(st, et, s.Arr, x.eidx(s.Off, i)).S }
		k := c.boundVar("k")
		c.Assume(and(app("<=", "(- 1)", r), app("<", r, s.Len)))
		c.Assume(implies(app(">=", r, "0"), eq(at(r), v.S)))
		c.Assume(fmt.Sprintf("(forall ((%s Int)) (=> (and (<= 0 %s) (< %s %s) (or (< %s %s) (< %s 0))) (not (= %s %s))))", k, k, k, s.Len, k, r, r, at(k), v.S))
		return intVal(r)
	case "slices.Contains":
		s, v := args[0], args[1]
		et := s.T.Underlying().(*types.Slice).Elem()
		r := c.Fresh(iname, "Bool")
		w := c.Fresh(iname+"_w", "Int")
		at := func(i string) string { return x.loadElem(st, et, s.Arr, x.eidx(s.Off, i)).S }
		k := c.boundVar("k")
		c.Assume(implies(r, and(app("<=", "0", w), app("<", w, s.Len), eq(at(w), v.S))))
		c.Assume(implies(not(r), fmt.Sprintf("(forall ((%s Int)) (=> (and (<= 0 %s) (< %s %s)) (not (= %s %s))))", k, k, k, s.Len, at(k), v.S)))
		return boolVal(r)
	case "slices.Delete":
		s, i, j := args[0], args[1].S, args[2].S
		et := s.T.Underlying().(*types.Slice).Elem()
		srt := c.sortOf(et)
		x.oblige(a.oname("safe-call"), "slices.Delete", *rc, and(app("<=", "0", i), app("<=", i, j), app("<=", j, s.Len)), ins.Pos(), nil, "slices.Delete: indices out of range")
		d := app("-", j, i)
		newLen := c.Define(iname+"_len", "Int", app("-", s.Len, d))
		a.frameElemsIf(s.Arr, app(">", d, "0"), st, *rc, ins.Pos())
		old := x.elemsArr(st, srt)
		z := c.zero(et)
		k := c.boundVar("k")
		row := c.Fresh("row", arrSort("Int", srt))
		// positions are absolute (offset included)
		lo := app("+", s.Off, i)
		c.Assume(fmt.Sprintf("(forall ((%s Int)) (! (= (select %s %s) %s) :pattern ((select %s %s))))", k, row, k,
			ite(and(app("<=", lo, k), app("<", k, app("+", s.Off, newLen))), sel(sel(old, s.Arr), app("+", k, d)),
				ite(and(app("<=", app("+", s.Off, newLen), k), app("<", k, app("+", s.Off, s.Len))), z.S, sel(sel(old, s.Arr), k))), row, k))
		st.elems[srt] = c.Define("E_"+srt, arrSort("Int", arrSort("Int", srt)), ite(app(">", d, "0"), store(old, s.Arr, row), old))
		return Val{K: KSlice, T: s.T, Arr: s.Arr, Off: s.Off, Len: newLen, Cap: s.Cap}
	case "slices.Insert":
		s, i, vs := args[0], args[1].S, args[2]
		et := s.T.Underlying().(*types.Slice).Elem()
		srt := c.sortOf(et)
		x.oblige(a.oname("safe-call"), "slices.Insert", *rc, and(app("<=", "0", i), app("<=", i, s.Len)), ins.Pos(), nil, "slices.Insert: index out of range")
		n := vs.Len
		newLen := c.Define(iname+"_len", "Int", app("+", s.Len, n))
		fits := c.Define(iname+"_fits", "Bool", app("<=", newLen, s.Cap))
		fresh := app("+", st.alloc, "1")
		arr := c.Define(iname+"_arr", "Int", ite(fits, s.Arr, fresh))
		off := c.Define(iname+"_off", "Int", ite(fits, s.Off, "0"))
		newCap := c.Fresh(iname+"_newcap", "Int")
		c.Assume(app(">=", newCap, newLen))
		a.frameElemsIf(s.Arr, and(fits, app(">", n, "0")), st, *rc, ins.Pos())
		old := x.elemsArr(st, srt)
		z := c.zero(et)
		k := c.boundVar("k")
		row := c.Fresh("row", arrSort("Int", srt))
		rel := app("-", k, off) // index relative to the result
		inRes := and(app("<=", "0", rel), app("<", rel, newLen))
		val := ite(app("<", rel, i), sel(sel(old, s.Arr), app("+", s.Off, rel)),
			ite(app("<", rel, app("+", i, n)), sel(sel(old, vs.Arr), app("+", vs.Off, app("-", rel, i))),
				sel(sel(old, s.Arr), app("+", s.Off, app("-", rel, n)))))
		c.Assume(fmt.Sprintf("(forall ((%s Int)) (! (= (select %s %s) %s) :pattern ((select %s %s))))", k, row, k,
			ite(inRes, val, ite(fits, sel(sel(old, s.Arr), k), z.S)), row, k))
		st.elems[srt] = c.Define("E_"+srt, arrSort("Int", arrSort("Int", srt)), ite(app(">", n, "0"), store(old, arr, row), old))
		st.alloc = c.Define("alloc", "Int", ite(and(not(fits), app(">", n, "0")), fresh, st.alloc))
		// inserting nothing returns s itself
		return Val{K: KSlice, T: s.T, Arr: c.Define(iname+"_a", "Int", ite(app(">", n, "0"), arr, s.Arr)), Off: c.Define(iname+"_o", "Int", ite(app(">", n, "0"), off, s.Off)),
			Len: newLen, Cap: c.Define(iname+"_c", "Int", ite(and(not(fits), app(">", n, "0")), newCap, s.Cap))}
	case "slices.SortFunc", "slices.Sort":
		s := args[0]
		et := s.T.Underlying().(*types.Slice).Elem()
		srt := c.sortOf(et)
		a.frameElemsIf(s.Arr, app(">", s.Len, "1"), st, *rc, ins.Pos())
		old := x.elemsArr(st, srt)
		row := c.Fresh("row", arrSort("Int", srt))
		perm := c.Fresh("perm", arrSort("Int", "Int"))
		inv := c.Fresh("perminv", arrSort("Int", "Int"))
		k := c.boundVar("k")
		// permutation of positions [0,len): perm is a bijection with inverse inv
		c.Assume(fmt.Sprintf("(forall ((%s Int)) (! (=> (and (<= 0 %s) (< %s %s)) (and (<= 0 (select %s %s)) (< (select %s %s) %s) (= (select %s (select %s %s)) %s))) :pattern ((select %s %s))))",
			k, k, k, s.Len, perm, k, perm, k, s.Len, inv, perm, k, k, perm, k))
		c.Assume(fmt.Sprintf("(forall ((%s Int)) (! (=> (and (<= 0 %s) (< %s %s)) (and (<= 0 (select %s %s)) (< (select %s %s) %s) (= (select %s (select %s %s)) %s))) :pattern ((select %s %s))))",
			k, k, k, s.Len, inv, k, inv, k, s.Len, perm, inv, k, k, inv, k))
		c.Assume(fmt.Sprintf("(forall ((%s Int)) (! (= (select %s %s) %s) :pattern ((select %s %s))))", k, row, k,
			ite(and(app("<=", s.Off, k), app("<", k, app("+", s.Off, s.Len))), sel(sel(old, s.Arr), app("+", s.Off, sel(perm, app("-", k, s.Off)))), sel(sel(old, s.Arr), k)), row, k))
		st.elems[srt] = c.Define("E_"+srt, arrSort("Int", arrSort("Int", srt)), store(old, s.Arr, row))
		// sortedness w.r.t. the comparator (SortFunc) — stated pairwise
		if name == "slices.SortFunc" {
			f := args[1]
			i, j := c.boundVar("i"), c.boundVar("j")
			ei := scalar(et, sel(row, x.eidx(s.Off, i)))
			ej := scalar(et, sel(row, x.eidx(s.Off, j)))
			cmp := x.applyFunc(f, []Val{ei, ej})
			c.Assume(fmt.Sprintf("(forall ((%s Int) (%s Int)) (=> (and (<= 0 %s) (< %s %s) (< %s %s)) (<= %s 0)))", i, j, i, i, j, j, s.Len, cmp.S))
			st.ncall = c.Fresh("ncall", "Int")
		}
		if name == "slices.Sort" {
			// ascending under the ordered type's own order (the same lt_<sort> that <, cmp.Compare are modelled by)
			i, j := c.boundVar("i"), c.boundVar("j")
			ei := sel(row, x.eidx(s.Off, i))
			ej := sel(row, x.eidx(s.Off, j))
			var le string
			if srt == "Int" {
				le = app("<=", ei, ej)
			} else {
				fn := "lt_" + srt
				c.DeclFun(fn, []string{srt, srt}, "Bool")
				le = not(app(fn, ej, ei))
			}
			c.Assume(fmt.Sprintf("(forall ((%s Int) (%s Int)) (=> (and (<= 0 %s) (< %s %s) (< %s %s)) %s))", i, j, i, i, j, j, s.Len, le))
		}
		st.gvars["sortperm"] = Val{K: KScalar, Srt: arrSort("Int", "Int"), S: perm}
		st.gvars["sortinv"] = Val{K: KScalar, Srt: arrSort("Int", "Int"), S: inv}
		return Val{K: KTuple}
	case "encoding/json.Marshal":
		return a.jsonMarshal(ins, args, st, rc)
	case "encoding/json.Unmarshal":
		return a.jsonUnmarshal(ins, args, st, rc)
	case "reflect.ValueOf":
		// opaque box carrying the identity of its argument
		v := args[0]
		inner := "0"
		if len(v.Fs) == 1 && v.Fs[0].K == KScalar {
			inner = v.Fs[0].S
		}
		return Val{K: KStruct, T: rt, Fs: []Val{scalar(types.Typ[types.Int], inner)}, S: inner}
	case "(reflect.Value).Pointer":
		// pure function of the function value (A-STD)
		v := args[0]
		c.DeclFun("reflect_pointer", []string{"Int"}, "Int")
		in := v.S
		if len(v.Fs) == 1 {
			in = v.Fs[0].S
		}
		return scalar(rt, app("reflect_pointer", in))
	case "cmp.Compare":
		// strict weak order on the ordered type (A-STD): defined through the uninterpreted lt_<sort>
		l, r := args[0], args[1]
		srt := c.sortOf(l.T)
		if srt == "Int" {
			return scalar(rt, c.Define(iname, "Int", ite(app("<", l.S, r.S), "(- 1)", ite(app(">", l.S, r.S), "1", "0"))))
		}
		fn := "lt_" + srt
		c.DeclFun(fn, []string{srt, srt}, "Bool")
		return scalar(rt, c.Define(iname, "Int", ite(app(fn, l.S, r.S), "(- 1)", ite(app(fn, r.S, l.S), "1", "0"))))
	}
	if strings.HasPrefix(name, "(*bytes.Buffer).") || name == "bytes.NewBuffer" || name == "bytes.Index" || strings.HasPrefix(name, "(*strings.Builder).") {
		x.note("external " + name + ": result unconstrained (pure, silent, total assumed)")
		return c.havocResult(a, rt, st, iname)
	}
	x.note("external " + name + ": no model; result unconstrained, assumed pure/silent/total")
	return c.havocResult(a, rt, st, iname)
}

// havocResult returns an unconstrained value of type t.
func (c *Ctx) havocResult(a *Activation, t types.Type, st *State, name string) Val {
	if tup, ok := t.(*types.Tuple); ok {
		if tup.Len() == 0 {
			return Val{K: KTuple}
		}
		v := Val{K: KTuple, T: t}
		for i := 0; i < tup.Len(); i++ {
			v.Fs = append(v.Fs, c.havocResult(a, tup.At(i).Type(), st, fmt.Sprintf("%s_%d", name, i)))
		}
		return v
	}
	if _, ok := t.Underlying().(*types.Slice); ok && !isTypeParam(t) {
		return a.freshSlice(t, st, name)
	}
	if _, ok := t.Underlying().(*types.Pointer); ok && !isTypeParam(t) {
		unsup("external call returning pointer type %s", typeStr(t))
	}
	v := c.freshVal(name, t)
	c.Assume(a.x.typeInv(v, st.alloc))
	return v
}

// ---------- encoding/json (A-JSON) ----------
//
// The content of a byte string as JSON is a ghost function of the byte slice (array, offset, length), relative to the
// Go type it is decoded into: kind 0 = syntactically invalid, 1 = well-formed but not decodable into that type,
// 2 = null, 3 = a value of that type (array resp. object). json.Marshal attaches the content to its fresh result,
// json.Unmarshal reads it. Assumed (A-JSON): Marshal never fails on the element types used ("JSON-representable"),
// decoding is the inverse of encoding, a syntax error is detected before anything is written, a type error may leave
// the target partially written, null yields nil, arrays are appended into the slice after resetting its length
// (reusing capacity), objects are merged into a non-nil map.

func (x *Exec) jsonFn(name string, sorts []string, res string) string {
	full := "json_" + name + "_" + sanitize(strings.Join(sorts, "_"))
	x.ctx.DeclFun(full, append([]string{"Int", "Int", "Int"}, sortsTail(name, sorts)...), res)
	return full
}

func sortsTail(name string, sorts []string) []string {
	switch name {
	case "akind", "alen", "okind", "ocard":
		return nil
	case "aelem":
		return []string{"Int"}
	case "ohas", "oval":
		return []string{sorts[0]}
	}
	return nil
}

func (x *Exec) jsonArrKind(b Val, es string) string {
	return app(x.jsonFn("akind", []string{es}, "Int"), b.Arr, b.Off, b.Len)
}
func (x *Exec) jsonArrLen(b Val, es string) string {
	return app(x.jsonFn("alen", []string{es}, "Int"), b.Arr, b.Off, b.Len)
}
func (x *Exec) jsonArrElem(b Val, es string, i string) string {
	return app(x.jsonFn("aelem", []string{es}, es), b.Arr, b.Off, b.Len, i)
}
func (x *Exec) jsonObjKind(b Val, ks, vs string) string {
	return app(x.jsonFn("okind", []string{ks, vs}, "Int"), b.Arr, b.Off, b.Len)
}
func (x *Exec) jsonObjCard(b Val, ks, vs string) string {
	return app(x.jsonFn("ocard", []string{ks, vs}, "Int"), b.Arr, b.Off, b.Len)
}
func (x *Exec) jsonObjHas(b Val, ks, vs string, k string) string {
	return app(x.jsonFn("ohas", []string{ks, vs}, "Bool"), b.Arr, b.Off, b.Len, k)
}
func (x *Exec) jsonObjVal(b Val, ks, vs string, k string) string {
	return app(x.jsonFn("oval", []string{ks, vs}, vs), b.Arr, b.Off, b.Len, k)
}

func (a *Activation) jsonMarshal(ins *ssa.Call, args []Val, st *State, rc *string) Val {
	x := a.x
	c := x.ctx
	rt := a.typ(ins.Type()).(*types.Tuple)
	bytesT := rt.At(0).Type()
	errT := rt.At(1).Type()
	out := a.freshSlice(bytesT, st, ins.Name()+"_bytes")
	c.Assume(not(eq(out.Arr, "0")))
	err := scalar(errT, "0") // A-JSON: the element types used are JSON-representable
	boxed := args[0]
	if len(boxed.Fs) != 1 {
		unsup("json.Marshal of an untracked value")
	}
	v := boxed.Fs[0]
	if v.K == KLoc {
		// pointer to a map/slice variable
		v = a.load(v, st, *rc, ins.Pos())
	}
	switch {
	case v.K == KSlice:
		et := v.T.Underlying().(*types.Slice).Elem()
		es := c.sortOf(et)
		c.Assume(eq(x.jsonArrKind(out, es), ite(eq(v.Arr, "0"), "2", "3")))
		c.Assume(implies(not(eq(v.Arr, "0")), eq(x.jsonArrLen(out, es), v.Len)))
		i := c.boundVar("i")
		c.Assume(fmt.Sprintf("(forall ((%s Int)) (! (=> (and (<= 0 %s) (< %s %s)) (= %s %s)) :pattern (%s)))", i, i, i, v.Len,
			x.jsonArrElem(out, es, i), x.loadElem(st, et, v.Arr, x.eidx(v.Off, i)).S, x.jsonArrElem(out, es, i)))
	case v.K == KScalar && v.T != nil && isMapType(v.T):
		mt := v.T.Underlying().(*types.Map)
		mk, ks, vs := x.mapSortsOf(mt)
		c.Assume(eq(x.jsonObjKind(out, ks, vs), ite(eq(v.S, "0"), "2", "3")))
		c.Assume(implies(not(eq(v.S, "0")), eq(x.jsonObjCard(out, ks, vs), x.mapLen(st, v.S))))
		k := c.boundVar("k")
		dom := sel(sel(x.mdomArr(st, mk), v.S), k)
		c.Assume(fmt.Sprintf("(forall ((%s %s)) (! (= %s %s) :pattern (%s)))", k, ks, x.jsonObjHas(out, ks, vs, k), and(not(eq(v.S, "0")), dom), x.jsonObjHas(out, ks, vs, k)))
		if vs != "Unit" {
			val := sel(sel(x.mvalArr(st, mk), v.S), k)
			c.Assume(fmt.Sprintf("(forall ((%s %s)) (! (=> %s (= %s %s)) :pattern (%s)))", k, ks, and(not(eq(v.S, "0")), dom), x.jsonObjVal(out, ks, vs, k), val, x.jsonObjVal(out, ks, vs, k)))
		}
	default:
		x.note("json.Marshal of " + describe(v) + ": content opaque")
	}
	return Val{K: KTuple, T: rt, Fs: []Val{out, err}}
}

func isMapType(t types.Type) bool {
	if isTypeParam(t) {
		return false
	}
	_, ok := t.Underlying().(*types.Map)
	return ok
}

func (a *Activation) jsonUnmarshal(ins *ssa.Call, args []Val, st *State, rc *string) Val {
	x := a.x
	c := x.ctx
	errT := a.typ(ins.Type())
	data := args[0]
	if data.K != KSlice {
		unsup("json.Unmarshal of non-slice data")
	}
	target := args[1]
	if len(target.Fs) != 1 {
		unsup("json.Unmarshal target not tracked")
	}
	p := target.Fs[0]
	if p.K != KLoc {
		unsup("json.Unmarshal target %s", describe(p))
	}
	old := a.load(p, st, *rc, ins.Pos())
	pt := p.Loc.T
	name := ins.Name()
	var kind string
	switch u := pt.Underlying().(type) {
	case *types.Slice:
		et := u.Elem()
		es := c.sortOf(et)
		kind = c.Define(name+"_kind", "Int", x.jsonArrKind(data, es))
		c.Assume(and(app("<=", "0", kind), app("<=", kind, "3")))
		n := x.jsonArrLen(data, es)
		c.Assume(app(">=", n, "0"))
		wrote := app("=", kind, "1") // partial decode
		ok3 := eq(kind, "3")
		// result slice for kind 3: reuse the backing array when it fits (and exists), else a fresh one
		fresh := app("+", st.alloc, "1")
		reuse := and(not(eq(old.Arr, "0")), app("<=", n, old.Cap))
		nv := c.freshVal(name+"_dec", pt)
		c.Assume(implies(ok3, and(eq(nv.Len, n), eq(nv.Arr, ite(reuse, old.Arr, fresh)), eq(nv.Off, ite(reuse, old.Off, "0")), app("<=", nv.Len, nv.Cap), implies(reuse, eq(nv.Cap, old.Cap)))))
		c.Assume(implies(eq(kind, "2"), and(eq(nv.Arr, "0"), eq(nv.Len, "0"), eq(nv.Cap, "0"), eq(nv.Off, "0"))))
		// type error: same array or a fresh one, arbitrary content
		c.Assume(implies(wrote, and(or(eq(nv.Arr, old.Arr), eq(nv.Arr, fresh)), app("<=", "0", nv.Len), app("<=", nv.Len, nv.Cap), eq(nv.Off, ite(eq(nv.Arr, old.Arr), old.Off, "0")))))
		c.Assume(x.typeInv(nv, fresh))
		oldE := x.elemsArr(st, es)
		row := c.Fresh("row", arrSort("Int", es))
		i := c.boundVar("i")
		// decoded elements (kind 3); elements of the old array beyond the new length keep their values when reused
		c.Assume(implies(ok3, fmt.Sprintf("(forall ((%s Int)) (! (= (select %s %s) %s) :pattern ((select %s %s))))", i, row, i,
			ite(and(app("<=", nv.Off, i), app("<", i, app("+", nv.Off, n))), x.jsonArrElem(data, es, app("-", i, nv.Off)), ite(reuse, sel(sel(oldE, old.Arr), i), c.zero(et).S)), row, i)))
		// the same fact oriented from the document side (pattern on the document's element)
		c.Assume(implies(ok3, fmt.Sprintf("(forall ((%s Int)) (! (=> (and (<= 0 %s) (< %s %s)) (= (select %s (+ %s %s)) %s)) :pattern (%s)))", i, i, i, n, row, nv.Off, i,
			x.jsonArrElem(data, es, i), x.jsonArrElem(data, es, i))))
		changes := or(ok3, wrote)
		tgtArr := ite(eq(nv.Arr, "0"), fresh, nv.Arr)
		if p.Loc.K != LLocal {
			a.frameElemsIf(old.Arr, and(changes, not(eq(old.Arr, "0")), eq(nv.Arr, old.Arr)), st, *rc, ins.Pos())
		}
		st.elems[es] = c.Define("E_"+es, arrSort("Int", arrSort("Int", es)), ite(changes, store(oldE, tgtArr, row), oldE))
		// ... and in the shape in which contracts read the decoded slice
		c.Assume(implies(ok3, fmt.Sprintf("(forall ((%s Int)) (! (=> (and (<= 0 %s) (< %s %s)) (= %s %s)) :pattern (%s)))", i, i, i, n,
			sel(sel(st.elems[es], nv.Arr), x.eidx(nv.Off, i)), x.jsonArrElem(data, es, i), x.jsonArrElem(data, es, i))))
		st.alloc = c.Define("alloc", "Int", ite(and(changes, eq(nv.Arr, fresh)), fresh, st.alloc))
		res := c.iteVal(eq(kind, "0"), old, nv)
		a.storeCond(ins, p, x.nameVal(name+"_tgt", res), st, *rc, not(eq(kind, "0")))
	case *types.Map:
		mt := u
		mk, ks, vs := x.mapSortsOf(mt)
		kind = c.Define(name+"_kind", "Int", x.jsonObjKind(data, ks, vs))
		c.Assume(and(app("<=", "0", kind), app("<=", kind, "3")))
		card := x.jsonObjCard(data, ks, vs)
		c.Assume(app(">=", card, "0"))
		fresh := app("+", st.alloc, "1")
		ok3 := eq(kind, "3")
		wrote := eq(kind, "1")
		// kind 3: decode into the existing map if non-nil (merge), else into a fresh one; kind 1: partial merge
		nm := c.Define(name+"_map", "Int", ite(eq(kind, "2"), "0", ite(eq(old.S, "0"), ite(eq(kind, "0"), "0", fresh), old.S)))
		d, v, l := x.mdomArr(st, mk), x.mvalArr(st, mk), x.mlenArr(st)
		nd := c.Fresh("decdom", arrSort(ks, "Bool"))
		nvv := c.Fresh("decval", arrSort(ks, vs))
		nl := c.Fresh("declen", "Int")
		c.Assume(app(">=", nl, "0"))
		k := c.boundVar("k")
		oldDom := and(not(eq(old.S, "0")), sel(sel(d, old.S), k))
		inDoc := x.jsonObjHas(data, ks, vs, k)
		c.Assume(implies(ok3, fmt.Sprintf("(forall ((%s %s)) (! (= (select %s %s) %s) :pattern ((select %s %s))))", k, ks, nd, k, or(oldDom, inDoc), nd, k)))
		if vs != "Unit" {
			c.Assume(implies(ok3, fmt.Sprintf("(forall ((%s %s)) (! (= (select %s %s) %s) :pattern ((select %s %s))))", k, ks, nvv, k,
				ite(inDoc, x.jsonObjVal(data, ks, vs, k), sel(sel(v, old.S), k)), nvv, k)))
		}
		// cardinality: a fresh map holds exactly the document's keys; merging can only grow the map
		c.Assume(implies(and(ok3, eq(old.S, "0")), eq(nl, card)))
		c.Assume(implies(and(ok3, not(eq(old.S, "0"))), and(app(">=", nl, x.mapLen(st, old.S)), app(">=", nl, card))))
		// partial merge keeps old keys
		c.Assume(implies(wrote, fmt.Sprintf("(forall ((%s %s)) (=> %s (select %s %s)))", k, ks, oldDom, nd, k)))
		changes := or(ok3, wrote)
		tgt := ite(eq(nm, "0"), fresh, nm)
		if p.Loc.K != LLocal {
			a.frameMapIf(old.S, and(changes, not(eq(old.S, "0"))), st, *rc, ins.Pos())
		}
		st.mdom[mk] = c.Define("MD", arrSort("Int", arrSort(ks, "Bool")), ite(changes, store(d, tgt, nd), d))
		if vs != "Unit" {
			st.mval[mk] = c.Define("MV", arrSort("Int", arrSort(ks, vs)), ite(changes, store(v, tgt, nvv), v))
		}
		st.mlen = c.Define("ML", arrSort("Int", "Int"), ite(changes, store(l, tgt, nl), l))
		st.alloc = c.Define("alloc", "Int", ite(and(changes, eq(nm, fresh)), fresh, st.alloc))
		res := scalar(pt, ite(eq(kind, "0"), old.S, nm))
		a.storeCond(ins, p, x.nameVal(name+"_tgt", res), st, *rc, not(eq(kind, "0")))
	default:
		unsup("json.Unmarshal into %s", typeStr(pt))
	}
	err := c.Fresh(name+"_err", "Int")
	c.Assume(eq(eq(err, "0"), app(">=", kind, "2")))
	return scalar(errT, err)
}

// storeCond stores v through p (frame obligation only when cond holds).
func (a *Activation) storeCond(ins ssa.Instruction, p Val, v Val, st *State, rc string, cond string) {
	a.store(ins, p, v, st, and(rc, cond), ins.Pos())
}

func (x *Exec) jsonValSort(v Val) string {
	if v.K == KUnit {
		x.ctx.DeclSort("Unit")
		return "Unit"
	}
	return x.ctx.sortOf(v.T)
}
