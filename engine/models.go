package main

// Assumed contracts of functions outside /repo (A-SLICES, A-STD, A-JSON). Every use is recorded in
// Exec.externals and listed in evidence under "assumed_contracts".

import (
	"fmt"
	"go/types"
	"strings"

	"golang.org/x/tools/go/ssa"
)

func (a *Activation) external(ins *ssa.Call, callee *ssa.Function, args []Val, st *State, rc *string) Val {
	x := a.x
	c := x.ctx
	name := extName(callee)
	x.externals[name] = true
	rt := a.typ(ins.Type())
	iname := ins.Name()
	if outputFuncs[name] {
		x.oblige(a.oname("silent"), "", *rc, "false", ins.Pos(), nil, name+" writes to standard output/error")
		return c.havocResult(a, rt, st, iname)
	}
	switch name {
	case "fmt.Sprintf", "fmt.Sprint", "fmt.Sprintln", "strconv.FormatInt", "strconv.FormatUint", "strconv.FormatFloat", "strconv.FormatBool", "strconv.Itoa":
		c.DeclSort("Str")
		return scalar(rt, c.Fresh(iname, "Str"))
	case "strings.Join":
		// result is an uninterpreted function of the element sequence; only totality/purity is assumed
		c.DeclSort("Str")
		return scalar(rt, c.Fresh(iname, "Str"))
	case "strings.Repeat":
		c.DeclSort("Str")
		// panics on negative count
		x.oblige(a.oname("safe-call"), "strings.Repeat", *rc, app(">=", args[1].S, "0"), ins.Pos(), nil, "strings.Repeat: negative count")
		return scalar(rt, c.Fresh(iname, "Str"))
	case "strings.TrimRight":
		// result is a prefix of the argument; for a cutset of spaces a non-space-terminated literal prefix survives
		c.DeclSort("Str")
		c.DeclFun("str_trimright", []string{"Str", "Str"}, "Str")
		c.DeclFun("str_hasprefix", []string{"Str", "Str"}, "Bool")
		r := app("str_trimright", args[0].S, args[1].S)
		return scalar(rt, c.Define(iname, "Str", r))
	case "strings.HasPrefix", "strings.HasSuffix":
		return scalar(rt, c.Fresh(iname, "Bool"))
	case "slices.Clone":
		s := args[0]
		et := s.T.Underlying().(*types.Slice).Elem()
		srt := c.sortOf(et)
		fresh := app("+", st.alloc, "1")
		isNil := eq(s.Arr, "0")
		arr := c.Define(iname+"_arr", "Int", ite(isNil, "0", fresh))
		old := x.elemsArr(st, srt)
		j := c.boundVar("j")
		row := c.Fresh("row", arrSort("Int", srt))
		c.Assume(fmt.Sprintf("(forall ((%s Int)) (! (=> (and (<= 0 %s) (< %s %s)) (= (select %s %s) (select (select %s %s) (+ %s %s)))) :pattern ((select %s %s))))",
			j, j, j, s.Len, row, j, old, s.Arr, s.Off, j, row, j))
		st.elems[srt] = c.Define("E_"+srt, arrSort("Int", arrSort("Int", srt)), ite(isNil, old, store(old, fresh, row)))
		st.alloc = c.Define("alloc", "Int", ite(isNil, st.alloc, fresh))
		cp := c.Fresh(iname+"_cap", "Int")
		c.Assume(and(app(">=", cp, s.Len), implies(isNil, eq(cp, "0"))))
		return Val{K: KSlice, T: s.T, Arr: arr, Off: "0", Len: s.Len, Cap: cp}
	case "slices.Index":
		s, v := args[0], args[1]
		et := s.T.Underlying().(*types.Slice).Elem()
		r := c.Fresh(iname, "Int")
		at := func(i string) string { return x.loadElem(st, et, s.Arr, x.eidx(s.Off, i)).S }
		k := c.boundVar("k")
		c.Assume(and(app("<=", "(- 1)", r), app("<", r, s.Len)))
		c.Assume(implies(app(">=", r, "0"), eq(at(r), v.S)))
		c.Assume(fmt.Sprintf("(forall ((%s Int)) (=> (and (<= 0 %s) (< %s %s) (or (< %s %s) (< %s 0))) (not (= %s %s))))", k, k, k, s.Len, k, r, r, at(k), v.S))
		return intVal(r)
	case "slices.Contains":
		s, v := args[0], args[1]
		et := s.T.Underlying().(*types.Slice).Elem()
		r := c.Fresh(iname, "Bool")
		w := c.Fresh(iname+"_w", "Int")
		at := func(i string) string { return x.loadElem(st, et, s.Arr, x.eidx(s.Off, i)).S }
		k := c.boundVar("k")
		c.Assume(implies(r, and(app("<=", "0", w), app("<", w, s.Len), eq(at(w), v.S))))
		c.Assume(implies(not(r), fmt.Sprintf("(forall ((%s Int)) (=> (and (<= 0 %s) (< %s %s)) (not (= %s %s))))", k, k, k, s.Len, at(k), v.S)))
		return boolVal(r)
	case "slices.Delete":
		s, i, j := args[0], args[1].S, args[2].S
		et := s.T.Underlying().(*types.Slice).Elem()
		srt := c.sortOf(et)
		x.oblige(a.oname("safe-call"), "slices.Delete", *rc, and(app("<=", "0", i), app("<=", i, j), app("<=", j, s.Len)), ins.Pos(), nil, "slices.Delete: indices out of range")
		d := app("-", j, i)
		newLen := c.Define(iname+"_len", "Int", app("-", s.Len, d))
		a.frameElemsIf(s.Arr, app(">", d, "0"), st, *rc, ins.Pos())
		old := x.elemsArr(st, srt)
		z := c.zero(et)
		k := c.boundVar("k")
		row := c.Fresh("row", arrSort("Int", srt))
		// positions are absolute (offset included)
		lo := app("+", s.Off, i)
		c.Assume(fmt.Sprintf("(forall ((%s Int)) (! (= (select %s %s) %s) :pattern ((select %s %s))))", k, row, k,
			ite(and(app("<=", lo, k), app("<", k, app("+", s.Off, newLen))), sel(sel(old, s.Arr), app("+", k, d)),
				ite(and(app("<=", app("+", s.Off, newLen), k), app("<", k, app("+", s.Off, s.Len))), z.S, sel(sel(old, s.Arr), k))), row, k))
		st.elems[srt] = c.Define("E_"+srt, arrSort("Int", arrSort("Int", srt)), ite(app(">", d, "0"), store(old, s.Arr, row), old))
		return Val{K: KSlice, T: s.T, Arr: s.Arr, Off: s.Off, Len: newLen, Cap: s.Cap}
	case "slices.Insert":
		s, i, vs := args[0], args[1].S, args[2]
		et := s.T.Underlying().(*types.Slice).Elem()
		srt := c.sortOf(et)
		x.oblige(a.oname("safe-call"), "slices.Insert", *rc, and(app("<=", "0", i), app("<=", i, s.Len)), ins.Pos(), nil, "slices.Insert: index out of range")
		n := vs.Len
		newLen := c.Define(iname+"_len", "Int", app("+", s.Len, n))
		fits := c.Define(iname+"_fits", "Bool", app("<=", newLen, s.Cap))
		fresh := app("+", st.alloc, "1")
		arr := c.Define(iname+"_arr", "Int", ite(fits, s.Arr, fresh))
		off := c.Define(iname+"_off", "Int", ite(fits, s.Off, "0"))
		newCap := c.Fresh(iname+"_newcap", "Int")
		c.Assume(app(">=", newCap, newLen))
		a.frameElemsIf(s.Arr, and(fits, app(">", n, "0")), st, *rc, ins.Pos())
		old := x.elemsArr(st, srt)
		z := c.zero(et)
		k := c.boundVar("k")
		row := c.Fresh("row", arrSort("Int", srt))
		rel := app("-", k, off) // index relative to the result
		inRes := and(app("<=", "0", rel), app("<", rel, newLen))
		val := ite(app("<", rel, i), sel(sel(old, s.Arr), app("+", s.Off, rel)),
			ite(app("<", rel, app("+", i, n)), sel(sel(old, vs.Arr), app("+", vs.Off, app("-", rel, i))),
				sel(sel(old, s.Arr), app("+", s.Off, app("-", rel, n)))))
		c.Assume(fmt.Sprintf("(forall ((%s Int)) (! (= (select %s %s) %s) :pattern ((select %s %s))))", k, row, k,
			ite(inRes, val, ite(fits, sel(sel(old, s.Arr), k), z.S)), row, k))
		st.elems[srt] = c.Define("E_"+srt, arrSort("Int", arrSort("Int", srt)), ite(app(">", n, "0"), store(old, arr, row), old))
		st.alloc = c.Define("alloc", "Int", ite(and(not(fits), app(">", n, "0")), fresh, st.alloc))
		// inserting nothing returns s itself
		return Val{K: KSlice, T: s.T, Arr: c.Define(iname+"_a", "Int", ite(app(">", n, "0"), arr, s.Arr)), Off: c.Define(iname+"_o", "Int", ite(app(">", n, "0"), off, s.Off)),
			Len: newLen, Cap: c.Define(iname+"_c", "Int", ite(and(not(fits), app(">", n, "0")), newCap, s.Cap))}
	case "slices.SortFunc", "slices.Sort":
		s := args[0]
		et := s.T.Underlying().(*types.Slice).Elem()
		srt := c.sortOf(et)
		a.frameElemsIf(s.Arr, app(">", s.Len, "1"), st, *rc, ins.Pos())
		old := x.elemsArr(st, srt)
		row := c.Fresh("row", arrSort("Int", srt))
		perm := c.Fresh("perm", arrSort("Int", "Int"))
		inv := c.Fresh("perminv", arrSort("Int", "Int"))
		k := c.boundVar("k")
		// permutation of positions [0,len): perm is a bijection with inverse inv
		c.Assume(fmt.Sprintf("(forall ((%s Int)) (! (=> (and (<= 0 %s) (< %s %s)) (and (<= 0 (select %s %s)) (< (select %s %s) %s) (= (select %s (select %s %s)) %s))) :pattern ((select %s %s))))",
			k, k, k, s.Len, perm, k, perm, k, s.Len, inv, perm, k, k, perm, k))
		c.Assume(fmt.Sprintf("(forall ((%s Int)) (! (=> (and (<= 0 %s) (< %s %s)) (and (<= 0 (select %s %s)) (< (select %s %s) %s) (= (select %s (select %s %s)) %s))) :pattern ((select %s %s))))",
			k, k, k, s.Len, inv, k, inv, k, s.Len, perm, inv, k, k, inv, k))
		c.Assume(fmt.Sprintf("(forall ((%s Int)) (! (= (select %s %s) %s) :pattern ((select %s %s))))", k, row, k,
			ite(and(app("<=", s.Off, k), app("<", k, app("+", s.Off, s.Len))), sel(sel(old, s.Arr), app("+", s.Off, sel(perm, app("-", k, s.Off)))), sel(sel(old, s.Arr), k)), row, k))
		st.elems[srt] = c.Define("E_"+srt, arrSort("Int", arrSort("Int", srt)), store(old, s.Arr, row))
		// sortedness w.r.t. the comparator (SortFunc) — stated pairwise
		if name == "slices.SortFunc" {
			f := args[1]
			i, j := c.boundVar("i"), c.boundVar("j")
			ei := scalar(et, sel(row, x.eidx(s.Off, i)))
			ej := scalar(et, sel(row, x.eidx(s.Off, j)))
			cmp := x.applyFunc(f, []Val{ei, ej})
			c.Assume(fmt.Sprintf("(forall ((%s Int) (%s Int)) (=> (and (<= 0 %s) (< %s %s) (< %s %s)) (<= %s 0)))", i, j, i, i, j, j, s.Len, cmp.S))
			st.ncall = c.Fresh("ncall", "Int")
		}
		st.gvars["sortperm"] = Val{K: KScalar, Srt: arrSort("Int", "Int"), S: perm}
		st.gvars["sortinv"] = Val{K: KScalar, Srt: arrSort("Int", "Int"), S: inv}
		return Val{K: KTuple}
	case "encoding/json.Marshal":
		return a.jsonMarshal(ins, args, st, rc)
	case "encoding/json.Unmarshal":
		return a.jsonUnmarshal(ins, args, st, rc)
	case "reflect.ValueOf":
		// opaque box carrying the identity of its argument
		v := args[0]
		inner := "0"
		if len(v.Fs) == 1 && v.Fs[0].K == KScalar {
			inner = v.Fs[0].S
		}
		return Val{K: KStruct, T: rt, Fs: []Val{scalar(types.Typ[types.Int], inner)}, S: inner}
	case "(reflect.Value).Pointer":
		// pure function of the function value (A-STD)
		v := args[0]
		c.DeclFun("reflect_pointer", []string{"Int"}, "Int")
		in := v.S
		if len(v.Fs) == 1 {
			in = v.Fs[0].S
		}
		return scalar(rt, app("reflect_pointer", in))
	case "cmp.Compare":
		// strict weak order on the ordered type (A-STD): defined through the uninterpreted lt_<sort>
		l, r := args[0], args[1]
		srt := c.sortOf(l.T)
		if srt == "Int" {
			return scalar(rt, c.Define(iname, "Int", ite(app("<", l.S, r.S), "(- 1)", ite(app(">", l.S, r.S), "1", "0"))))
		}
		fn := "lt_" + srt
		c.DeclFun(fn, []string{srt, srt}, "Bool")
		return scalar(rt, c.Define(iname, "Int", ite(app(fn, l.S, r.S), "(- 1)", ite(app(fn, r.S, l.S), "1", "0"))))
	}
	if strings.HasPrefix(name, "(*bytes.Buffer).") || name == "bytes.NewBuffer" || name == "bytes.Index" || strings.HasPrefix(name, "(*strings.Builder).") {
		x.note("external " + name + ": result unconstrained (pure, silent, total assumed)")
		return c.havocResult(a, rt, st, iname)
	}
	x.note("external " + name + ": no model; result unconstrained, assumed pure/silent/total")
	return c.havocResult(a, rt, st, iname)
}

// havocResult returns an unconstrained value of type t.
func (c *Ctx) havocResult(a *Activation, t types.Type, st *State, name string) Val {
	if tup, ok := t.(*types.Tuple); ok {
		if tup.Len() == 0 {
			return Val{K: KTuple}
		}
		v := Val{K: KTuple, T: t}
		for i := 0; i < tup.Len(); i++ {
			v.Fs = append(v.Fs, c.havocResult(a, tup.At(i).Type(), st, fmt.Sprintf("%s_%d", name, i)))
		}
		return v
	}
	if _, ok := t.Underlying().(*types.Slice); ok && !isTypeParam(t) {
		return a.freshSlice(t, st, name)
	}
	if _, ok := t.Underlying().(*types.Pointer); ok && !isTypeParam(t) {
		unsup("external call returning pointer type %s", typeStr(t))
	}
	v := c.freshVal(name, t)
	c.Assume(a.x.typeInv(v, st.alloc))
	return v
}

// ---------- encoding/json (A-JSON) ----------

// json.Marshal(x): pure, allocates a fresh []byte; the text is an uninterpreted function of the abstract content.
func (a *Activation) jsonMarshal(ins *ssa.Call, args []Val, st *State, rc *string) Val {
	x := a.x
	c := x.ctx
	rt := a.typ(ins.Type()).(*types.Tuple)
	bytesT := rt.At(0).Type()
	errT := rt.At(1).Type()
	out := a.freshSlice(bytesT, st, ins.Name()+"_bytes")
	err := scalar(errT, c.Fresh(ins.Name()+"_err", "Int"))
	// what was marshalled: remember the boxed value for contracts (jsonOf)
	boxed := args[0]
	if len(boxed.Fs) == 1 {
		st.gvars["marshalled"] = boxed.Fs[0]
	}
	return Val{K: KTuple, T: rt, Fs: []Val{out, err}}
}

// json.Unmarshal(data, &v): on error with a syntactically invalid document nothing is modified; a type error may leave
// the target partially updated; on success the target holds the decoded value (A-JSON, §4 C11/C12 of DESIGN.md).
func (a *Activation) jsonUnmarshal(ins *ssa.Call, args []Val, st *State, rc *string) Val {
	x := a.x
	c := x.ctx
	errT := a.typ(ins.Type())
	err := c.Fresh(ins.Name()+"_err", "Int")
	target := args[1]
	if len(target.Fs) != 1 {
		unsup("json.Unmarshal target not tracked")
	}
	p := target.Fs[0]
	synErr := c.Fresh(ins.Name()+"_syntaxerr", "Bool") // invalid JSON: detected before anything is written
	c.Assume(implies(synErr, not(eq(err, "0"))))
	st.gvars["unmarshal_syntaxerr"] = boolVal(synErr)
	switch p.K {
	case KLoc:
		// pointer to a slice or map variable / field
		old := a.load(p, st, *rc, ins.Pos())
		pt := p.Loc.T
		switch u := pt.Underlying().(type) {
		case *types.Slice:
			et := u.Elem()
			srt := c.sortOf(et)
			nv := c.freshVal(ins.Name()+"_dec", pt)
			// decoded slice: reuses the old backing array when it fits, otherwise a fresh one; null gives nil
			fresh := app("+", st.alloc, "1")
			c.Assume(or(eq(nv.Arr, old.Arr), eq(nv.Arr, fresh), eq(nv.Arr, "0")))
			c.Assume(and(eq(nv.Off, ite(eq(nv.Arr, old.Arr), old.Off, "0")), app("<=", "0", nv.Len), app("<=", nv.Len, nv.Cap), implies(eq(nv.Arr, "0"), eq(nv.Cap, "0")),
				implies(and(eq(nv.Arr, old.Arr), not(eq(nv.Arr, "0"))), eq(nv.Cap, old.Cap))))
			// elements: the target array's contents are havocked (decoded values or partial decode)
			oldE := x.elemsArr(st, srt)
			row := c.Fresh("row", arrSort("Int", srt))
			wrote := not(synErr)
			if p.Loc.K != LLocal {
				a.frameElemsIf(old.Arr, and(wrote, not(eq(old.Arr, "0"))), st, *rc, ins.Pos())
			}
			st.elems[srt] = c.Define("E_"+srt, arrSort("Int", arrSort("Int", srt)), ite(wrote, store(oldE, ite(eq(nv.Arr, "0"), fresh, nv.Arr), row), oldE))
			st.alloc = c.Define("alloc", "Int", ite(and(wrote, eq(nv.Arr, fresh)), fresh, st.alloc))
			res := c.iteVal(wrote, nv, old)
			a.storeCond(ins, p, x.nameVal(ins.Name()+"_tgt", res), st, *rc, wrote)
			st.gvars["unmarshalled"] = nv
		case *types.Map:
			mt := u
			mk, ks, vs := x.mapSortsOf(mt)
			// null: target becomes nil; object: decoded into the existing map when non-nil (merge), else a fresh map
			fresh := app("+", st.alloc, "1")
			nm := c.Fresh(ins.Name()+"_map", "Int")
			c.Assume(or(eq(nm, "0"), and(not(eq(old.S, "0")), eq(nm, old.S)), and(eq(old.S, "0"), eq(nm, fresh))))
			wrote := not(synErr)
			d, v, l := x.mdomArr(st, mk), x.mvalArr(st, mk), x.mlenArr(st)
			nd := c.Fresh("decdom", arrSort(ks, "Bool"))
			nvv := c.Fresh("decval", arrSort(ks, vs))
			nl := c.Fresh("declen", "Int")
			c.Assume(app(">=", nl, "0"))
			// merge semantics: keys present before stay present when decoding into a live map (on success)
			kk := c.boundVar("k")
			c.Assume(implies(and(eq(err, "0"), eq(nm, old.S), not(eq(nm, "0"))), fmt.Sprintf("(forall ((%s %s)) (=> (select (select %s %s) %s) (select %s %s)))", kk, ks, d, old.S, kk, nd, kk)))
			tgt := ite(eq(nm, "0"), fresh, nm)
			if p.Loc.K != LLocal {
				a.frameMapIf(old.S, and(wrote, not(eq(old.S, "0")), eq(nm, old.S)), st, *rc, ins.Pos())
			}
			st.mdom[mk] = c.Define("MD", arrSort("Int", arrSort(ks, "Bool")), ite(wrote, store(d, tgt, nd), d))
			if vs != "Unit" {
				st.mval[mk] = c.Define("MV", arrSort("Int", arrSort(ks, vs)), ite(wrote, store(v, tgt, nvv), v))
			}
			st.mlen = c.Define("ML", arrSort("Int", "Int"), ite(wrote, store(l, tgt, nl), l))
			st.alloc = c.Define("alloc", "Int", ite(and(wrote, eq(nm, fresh)), fresh, st.alloc))
			res := scalar(pt, ite(wrote, nm, old.S))
			a.storeCond(ins, p, x.nameVal(ins.Name()+"_tgt", res), st, *rc, wrote)
			st.gvars["unmarshalled"] = scalar(pt, nm)
		default:
			unsup("json.Unmarshal into %s", typeStr(pt))
		}
	default:
		unsup("json.Unmarshal target %s", describe(p))
	}
	return scalar(errT, err)
}

// storeCond stores v through p (frame obligation only when cond holds).
func (a *Activation) storeCond(ins ssa.Instruction, p Val, v Val, st *State, rc string, cond string) {
	a.store(ins, p, v, st, and(rc, cond), ins.Pos())
}
