package main

// Evaluator of contract expressions over a symbolic state.

import (
	"fmt"
	"go/types"
	"sort"
	"strings"
)

type Env struct {
	x      *Exec
	st     *State // heap in which the expression is evaluated
	old    *State // heap for old(...)
	vars   map[string]Val
	pkg    string // package whose predicates are in scope
	parent *Env
	lookup func(name string) (Val, bool) // program variables
}

func (e *Env) child() *Env {
	return &Env{x: e.x, st: e.st, old: e.old, vars: map[string]Val{}, pkg: e.pkg, parent: e, lookup: nil}
}

func (e *Env) withState(st *State) *Env {
	n := *e
	n.st = st
	return &n
}

func (e *Env) find(name string) (Val, bool) {
	for c := e; c != nil; c = c.parent {
		// program variables at the current point shadow parameters' entry values (parameters may be reassigned)
		if c.lookup != nil {
			if v, ok := c.lookup(name); ok {
				return v, true
			}
		}
		if v, ok := c.vars[name]; ok {
			return v, true
		}
	}
	return Val{}, false
}

type evalError struct{ msg string }

func (e evalError) Error() string { return e.msg }

func efail(format string, args ...interface{}) {
	panic(evalError{fmt.Sprintf(format, args...)})
}

func (e *Env) ctx() *Ctx { return e.x.ctx }

// evalBool evaluates a formula.
func (e *Env) evalBool(ex Expr) string {
	v := e.eval(ex)
	if v.K != KScalar || !(v.T != nil && isBoolType(v.T) || v.T == nil && v.Srt == "Bool") {
		efail("expected a boolean, got %s", describe(v))
	}
	return v.S
}

func isBoolType(t types.Type) bool {
	b, ok := t.Underlying().(*types.Basic)
	return ok && b.Info()&types.IsBoolean != 0
}

func (e *Env) evalInt(ex Expr) string {
	v := e.eval(ex)
	if v.K != KScalar {
		efail("expected an integer, got %s", describe(v))
	}
	return v.S
}

func exprString(ex Expr) string {
	switch x := ex.(type) {
	case *EIdent:
		return x.Name
	case *EField:
		return exprString(x.X) + "." + x.Name
	case *ECall:
		return x.Fn + "(...)"
	}
	return fmt.Sprintf("%T", ex)
}

func (e *Env) eval(ex Expr) Val {
	c := e.ctx()
	switch x := ex.(type) {
	case *EInt:
		return intVal(x.V)
	case *EBool:
		if x.V {
			return boolVal("true")
		}
		return boolVal("false")
	case *ENil:
		return Val{K: KScalar, T: types.Typ[types.UntypedNil], S: "0"}
	case *EStr:
		return scalar(types.Typ[types.String], e.x.strLit(x.V))
	case *EIdent:
		if v, ok := e.find(x.Name); ok {
			return v
		}
		if x.Name == "ncall" || x.Name == "loglen" {
			return intVal(e.st.ncall)
		}
		if x.Name == "idmap" {
			return e.call(&ECall{Fn: "idmap"})
		}
		efail("unknown identifier %q", x.Name)
	case *EField:
		base := e.eval(x.X)
		return e.field(base, x.Name)
	case *EIndex:
		base := e.eval(x.X)
		idx := e.eval(x.I)
		return e.index(base, idx)
	case *ESlice:
		base := e.toSeq(e.eval(x.X))
		lo := "0"
		hi := base.Seq.Len
		if x.Lo != nil {
			lo = e.evalInt(x.Lo)
		}
		if x.Hi != nil {
			hi = e.evalInt(x.Hi)
		}
		at := base.Seq.At
		return Val{K: KSeq, Seq: &SeqV{Len: app("-", hi, lo), At: func(i string) Val { return at(app("+", i, lo)) }, Elem: base.Seq.Elem}}
	case *ESeqLit:
		var vs []Val
		for _, el := range x.Elems {
			vs = append(vs, e.eval(el))
		}
		n := len(vs)
		var et types.Type
		if n > 0 {
			et = vs[0].T
		}
		return Val{K: KSeq, Seq: &SeqV{Len: fmt.Sprint(n), Elem: et, At: func(i string) Val {
			if n == 0 {
				efail("indexing the empty sequence literal")
			}
			r := vs[n-1]
			for k := n - 2; k >= 0; k-- {
				r = c.iteVal(eq(i, fmt.Sprint(k)), vs[k], r)
			}
			return r
		}}}
	case *EUn:
		switch x.Op {
		case "!":
			return boolVal(not(e.evalBool(x.X)))
		case "-":
			return intVal(app("-", e.evalInt(x.X)))
		}
	case *EBin:
		return e.binop(x)
	case *EQuant:
		return e.quant(x)
	case *ELet:
		v := e.eval(x.Val)
		ch := e.child()
		ch.vars[x.Name] = v
		return ch.eval(x.Body)
	case *ELambda:
		return Val{K: KLambda, Lam: &LamV{x.Vars, x.Body, e}}
	case *ECall:
		return e.call(x)
	case *EApply:
		f := e.eval(x.F)
		var args []Val
		for _, a := range x.Args {
			args = append(args, e.eval(a))
		}
		if f.K == KLambda {
			ch := f.Lam.Env.child()
			for i, b := range f.Lam.Vars {
				ch.vars[b.Name] = args[i]
			}
			return ch.eval(f.Lam.Body)
		}
		return e.x.applyFunc(f, args)
	}
	efail("cannot evaluate %T", ex)
	return Val{}
}

func (e *Env) field(base Val, name string) Val {
	switch base.K {
	case KStruct:
		n, _ := types.Unalias(base.T).(*types.Named)
		if n == nil {
			efail("field %s of anonymous struct", name)
		}
		i := fieldIndex(n, name)
		if i < 0 {
			efail("no field %s in %s", name, typeStr(base.T))
		}
		return base.Fs[i]
	case KScalar:
		if base.T == nil {
			efail("field %s of untyped value", name)
		}
		n := namedStruct(base.T)
		if n == nil {
			efail("field %s of non-struct %s", name, typeStr(base.T))
		}
		if i := fieldIndex(n, name); i >= 0 {
			ft := structFieldType(n, i)
			if isEmbeddedStructField(ft) {
				// by-value struct field: denote it by a pointer to the sub-object
				return scalar(types.NewPointer(ft), add(base.S, subOffset(n, i)))
			}
			return e.x.loadField(e.st, n, base.S, i)
		}
		if g := e.x.ghostField(n, name); g != nil {
			if g.Local && g.Pkg != funcPkg(e.x.root) {
				efail("ghost field %s.%s is local to package %s", g.Owner, g.Name, g.Pkg)
			}
			key, elem, isMap := e.x.ghostKey(n, g)
			t := sel(e.x.fieldArr(e.st, key), base.S)
			if isMap {
				return Val{K: KMapView, T: elem, S: t, Srt: arrSort(c0(e).sortOf(e.x.ghostKeyType(n, g)), c0(e).sortOf(elem))}
			}
			return scalar(elem, t)
		}
		efail("no field %s in %s", name, typeStr(n))
	}
	efail("field %s of %s", name, describe(base))
	return Val{}
}

func c0(e *Env) *Ctx { return e.x.ctx }

func (e *Env) index(base, idx Val) Val {
	switch base.K {
	case KSeq:
		return base.Seq.At(idx.S)
	case KSlice:
		et := base.T.Underlying().(*types.Slice).Elem()
		return e.x.loadElem(e.st, et, base.Arr, e.x.eidx(base.Off, idx.S))
	case KMapView:
		if base.Map != nil {
			return base.Map.Get(idx)
		}
		// ghost map field: S is an (Array Int elem)
		return scalar(base.T, sel(base.S, idx.S))
	case KArray:
		et := base.T.Underlying().(*types.Array).Elem()
		return scalar(et, sel(base.S, idx.S))
	case KScalar:
		// ghost set of visited keys of a map range (N == -1 marks it): membership
		if base.N == -1 && strings.HasPrefix(base.Srt, "(Array ") {
			return boolVal(sel(base.S, idx.S))
		}
		// spec-only integer map
		if base.T == nil && strings.HasPrefix(base.Srt, "(Array Int ") {
			inner := strings.TrimSuffix(strings.TrimPrefix(base.Srt, "(Array Int "), ")")
			if inner == "Int" {
				return intVal(sel(base.S, idx.S))
			}
			return Val{K: KScalar, Srt: inner, S: sel(base.S, idx.S)}
		}
		// Go map value: m[k]
		if base.T != nil {
			if mt, ok := base.T.Underlying().(*types.Map); ok {
				v, _ := e.x.mapLookup(e.st, mt, base.S, idx)
				return v
			}
		}
	}
	efail("cannot index %s", describe(base))
	return Val{}
}

func (e *Env) toSeq(v Val) Val {
	switch v.K {
	case KSeq:
		return v
	case KSlice:
		et := v.T.Underlying().(*types.Slice).Elem()
		st := e.st
		x := e.x
		arr, off := v.Arr, v.Off
		return Val{K: KSeq, Seq: &SeqV{Len: v.Len, Elem: et, At: func(i string) Val { return x.loadElem(st, et, arr, x.eidx(off, i)) }}}
	}
	efail("expected a sequence, got %s", describe(v))
	return Val{}
}

func (e *Env) seqEq(a, b Val) string {
	a, b = e.toSeq(a), e.toSeq(b)
	c := e.ctx()
	i := c.boundVar("i")
	body := implies(and(app("<=", "0", i), app("<", i, a.Seq.Len)), c.eqVal(a.Seq.At(i), b.Seq.At(i)))
	return and(eq(a.Seq.Len, b.Seq.Len), fmt.Sprintf("(forall ((%s Int)) %s)", i, body))
}

func (c *Ctx) boundVar(prefix string) string {
	c.n++
	return fmt.Sprintf("%s?%d", prefix, c.n)
}

func (e *Env) binop(x *EBin) Val {
	c := e.ctx()
	switch x.Op {
	case "&&":
		return boolVal(and(e.evalBool(x.L), e.evalBool(x.R)))
	case "||":
		return boolVal(or(e.evalBool(x.L), e.evalBool(x.R)))
	case "==>":
		return boolVal(implies(e.evalBool(x.L), e.evalBool(x.R)))
	case "<==>":
		return boolVal(eq(e.evalBool(x.L), e.evalBool(x.R)))
	case "==", "!=":
		l, r := e.eval(x.L), e.eval(x.R)
		var t string
		if l.K == KSeq || r.K == KSeq {
			t = e.seqEq(l, r)
		} else if l.K == KSet || r.K == KSet {
			t = e.setEq(l, r)
		} else if l.K == KSlice && isNilVal(r) {
			t = eq(l.Arr, "0")
		} else if r.K == KSlice && isNilVal(l) {
			t = eq(r.Arr, "0")
		} else {
			t = c.eqVal(l, r)
		}
		if x.Op == "!=" {
			t = not(t)
		}
		return boolVal(t)
	case "<", "<=", ">", ">=":
		{
			// ordered comparison of two values of a type parameter (cmp.Ordered): the uninterpreted strict order lt_<sort>
			// that the program's own <, cmp.Compare and slices.Sort are modelled by
			l, r := e.eval(x.L), e.eval(x.R)
			if l.T != nil && r.T != nil && isTypeParam(l.T) && isTypeParam(r.T) {
				srt := c.sortOf(l.T)
				fn := "lt_" + srt
				c.DeclFun(fn, []string{srt, srt}, "Bool")
				switch x.Op {
				case "<":
					return boolVal(app(fn, l.S, r.S))
				case ">":
					return boolVal(app(fn, r.S, l.S))
				case "<=":
					return boolVal(not(app(fn, r.S, l.S)))
				default:
					return boolVal(not(app(fn, l.S, r.S)))
				}
			}
		}
		return boolVal(app(x.Op, e.evalInt(x.L), e.evalInt(x.R)))
	case "+", "-", "*":
		l, r := e.eval(x.L), e.eval(x.R)
		if x.Op == "+" && l.T != nil && isStringType(l.T) {
			return scalar(l.T, e.x.strConcat(l.S, r.S))
		}
		return intVal(app(x.Op, l.S, r.S))
	case "/":
		return intVal(e.x.goDiv(e.evalInt(x.L), e.evalInt(x.R)))
	case "%":
		return intVal(e.x.goRem(e.evalInt(x.L), e.evalInt(x.R)))
	case "++":
		l, r := e.toSeq(e.eval(x.L)), e.toSeq(e.eval(x.R))
		ll := l.Seq.Len
		la, ra := l.Seq.At, r.Seq.At
		et := l.Seq.Elem
		if et == nil {
			et = r.Seq.Elem
		}
		return Val{K: KSeq, Seq: &SeqV{Len: app("+", ll, r.Seq.Len), Elem: et, At: func(i string) Val {
			if l.Seq.Len == "0" {
				return ra(i)
			}
			if r.Seq.Len == "0" {
				return la(i)
			}
			return c.iteVal(app("<", i, ll), la(i), ra(app("-", i, ll)))
		}}}
	case "in":
		l := e.eval(x.L)
		r := e.eval(x.R)
		if r.K == KSet {
			return boolVal(r.Set.Mem(l))
		}
		if r.K == KSeq || r.K == KSlice {
			s := e.toSeq(r)
			i := c.boundVar("k")
			return boolVal(fmt.Sprintf("(exists ((%s Int)) %s)", i, and(app("<=", "0", i), app("<", i, s.Seq.Len), c.eqVal(s.Seq.At(i), l))))
		}
		efail("'in' needs a set or sequence")
	}
	efail("unknown operator %s", x.Op)
	return Val{}
}

func isNilVal(v Val) bool {
	if v.K != KScalar || v.T == nil {
		return false
	}
	b, ok := v.T.(*types.Basic)
	return ok && b.Kind() == types.UntypedNil
}

func isStringType(t types.Type) bool {
	b, ok := t.Underlying().(*types.Basic)
	return ok && b.Info()&types.IsString != 0
}

func (e *Env) setEq(a, b Val) string {
	if a.K != KSet || b.K != KSet {
		efail("set equality needs two sets")
	}
	c := e.ctx()
	srt := c.sortOf(a.Set.Elem)
	v := c.boundVar("x")
	xv := scalar(a.Set.Elem, v)
	return fmt.Sprintf("(forall ((%s %s)) %s)", v, srt, eq(a.Set.Mem(xv), b.Set.Mem(xv)))
}

func (e *Env) bindQuantVars(vars []Binder) (*Env, []string) {
	c := e.ctx()
	ch := e.child()
	var decls []string
	for _, b := range vars {
		name := c.boundVar(b.Name)
		var t types.Type
		switch {
		case b.Like != nil:
			lv := e.eval(b.Like)
			if lv.T == nil {
				efail("binder %s: 'like' expression has no Go type", b.Name)
			}
			t = lv.T
			if lv.K != KScalar && lv.K != KUnit {
				efail("binder %s: 'like' expression is not scalar (%s)", b.Name, describe(lv))
			}
		case b.Type == "bool":
			t = types.Typ[types.Bool]
		default:
			t = types.Typ[types.Int]
		}
		ch.vars[b.Name] = scalar(t, name)
		decls = append(decls, fmt.Sprintf("(%s %s)", name, c.sortOf(t)))
	}
	return ch, decls
}

func (e *Env) quant(q *EQuant) Val {
	ch, decls := e.bindQuantVars(q.Vars)
	body := ch.evalBool(q.Body)
	kw := "exists"
	if q.Forall {
		kw = "forall"
	}
	return boolVal(fmt.Sprintf("(%s (%s) %s)", kw, strings.Join(decls, " "), body))
}

func (e *Env) call(x *ECall) Val {
	c := e.ctx()
	argn := func(n int) {
		if len(x.Args) != n {
			efail("%s expects %d argument(s)", x.Fn, n)
		}
	}
	switch x.Fn {
	case "old":
		argn(1)
		if e.old == nil {
			efail("old() is not available here")
		}
		return e.withState(e.old).eval(x.Args[0])
	case "len":
		argn(1)
		v := e.eval(x.Args[0])
		switch v.K {
		case KSeq:
			return intVal(v.Seq.Len)
		case KSlice:
			return intVal(v.Len)
		case KScalar:
			if v.T != nil {
				if _, ok := v.T.Underlying().(*types.Map); ok {
					return intVal(e.x.mapLen(e.st, v.S))
				}
			}
		case KMapView:
			if v.Map != nil {
				return intVal(v.Map.Len)
			}
		}
		efail("len of %s", describe(v))
	case "cap":
		argn(1)
		v := e.eval(x.Args[0])
		if v.K == KSlice {
			return intVal(v.Cap)
		}
		efail("cap of %s", describe(v))
	case "ite":
		argn(3)
		cond := e.evalBool(x.Args[0])
		a, b := e.eval(x.Args[1]), e.eval(x.Args[2])
		if a.K == KSeq || b.K == KSeq {
			a, b = e.toSeq(a), e.toSeq(b)
			aa, ba := a.Seq.At, b.Seq.At
			return Val{K: KSeq, Seq: &SeqV{Len: ite(cond, a.Seq.Len, b.Seq.Len), Elem: a.Seq.Elem, At: func(i string) Val { return c.iteVal(cond, aa(i), ba(i)) }}}
		}
		return c.iteVal(cond, a, b)
	case "seq":
		argn(1)
		return e.toSeq(e.eval(x.Args[0]))
	case "fresh":
		// allocated during the call: ref > alloc of the old state
		argn(1)
		v := e.eval(x.Args[0])
		if e.old == nil {
			efail("fresh() needs an old state")
		}
		r := v.S
		if v.K == KSlice {
			r = v.Arr
		}
		return boolVal(app(">", r, e.old.alloc))
	case "allocated":
		argn(1)
		v := e.eval(x.Args[0])
		r := v.S
		if v.K == KSlice {
			r = v.Arr
		}
		return boolVal(and(app("<=", "0", r), app("<=", r, e.st.alloc)))
	case "deref", "slot_isroot", "slot_node", "slot_idx", "slot_tree":
		argn(1)
		v := e.eval(x.Args[0])
		if v.K != KLoc {
			efail("%s of %s", x.Fn, describe(v))
		}
		l := v.Loc
		switch x.Fn {
		case "deref":
			switch l.K {
			case LField:
				return e.x.loadField(e.st, l.Owner, l.Ref, l.Path[0])
			case LFieldElem:
				arrv := e.x.loadField(e.st, l.Owner, l.Ref, l.Path[0])
				return scalar(l.T, sel(arrv.S, l.Idx))
			case LSlot:
				rootv := e.x.loadField(e.st, l.TreeOwner, l.Ref, l.RootPath)
				arrv := e.x.loadField(e.st, l.Owner, l.NodeRef, l.Path[0])
				return scalar(l.T, ite(l.IsRoot, rootv.S, sel(arrv.S, l.Idx)))
			case LLocal:
				if cv, ok := e.st.locals[l.Local]; ok {
					return cv
				}
			}
			efail("deref of %s", describe(v))
		case "slot_isroot":
			switch l.K {
			case LField:
				return boolVal("true")
			case LFieldElem:
				return boolVal("false")
			case LSlot:
				return boolVal(l.IsRoot)
			}
		case "slot_node":
			switch l.K {
			case LFieldElem:
				return scalar(types.NewPointer(l.Owner), l.Ref)
			case LSlot:
				return scalar(types.NewPointer(l.Owner), l.NodeRef)
			case LField:
				// the root slot has no owner node: a nil pointer of the slot's content type (*Node)
				if l.T != nil {
					if _, isPtr := types.Unalias(l.T).Underlying().(*types.Pointer); isPtr {
						return scalar(l.T, "0")
					}
				}
				return scalar(types.NewPointer(l.Owner), "0")
			}
		case "slot_idx":
			switch l.K {
			case LFieldElem, LSlot:
				return intVal(l.Idx)
			case LField:
				return intVal("0")
			}
		case "slot_tree":
			switch l.K {
			case LField:
				return scalar(types.NewPointer(l.Owner), l.Ref)
			case LSlot:
				return scalar(types.NewPointer(l.TreeOwner), l.Ref)
			case LFieldElem:
				return Val{K: KScalar, Srt: "Int", S: "0"} // a child slot belongs to no tree header
			}
		}
		efail("%s of %s", x.Fn, describe(v))
	case "isnil":
		argn(1)
		v := e.eval(x.Args[0])
		if v.K == KSlice {
			return boolVal(eq(v.Arr, "0"))
		}
		return boolVal(eq(v.S, "0"))
	case "arr":
		argn(1)
		v := e.eval(x.Args[0])
		if v.K != KSlice {
			efail("arr() needs a slice")
		}
		return intVal(v.Arr)
	case "off":
		argn(1)
		v := e.eval(x.Args[0])
		if v.K != KSlice {
			efail("off() needs a slice")
		}
		return intVal(v.Off)
	case "min", "max":
		argn(2)
		a, b := e.evalInt(x.Args[0]), e.evalInt(x.Args[1])
		if x.Fn == "min" {
			return intVal(ite(app("<=", a, b), a, b))
		}
		return intVal(ite(app(">=", a, b), a, b))
	case "mklseq":
		// mklseq(n, \i. e): sequence of length n
		argn(2)
		n := e.evalInt(x.Args[0])
		lam := e.eval(x.Args[1])
		if lam.K != KLambda {
			efail("mklseq needs a lambda")
		}
		return Val{K: KSeq, Seq: &SeqV{Len: n, At: func(i string) Val {
			ch := lam.Lam.Env.child()
			ch.vars[lam.Lam.Vars[0].Name] = intVal(i)
			return ch.eval(lam.Lam.Body)
		}}}
	case "has":
		// has(m, k): key present in Go map
		argn(2)
		m := e.eval(x.Args[0])
		k := e.eval(x.Args[1])
		mt, ok := m.T.Underlying().(*types.Map)
		if !ok {
			efail("has() needs a Go map")
		}
		_, present := e.x.mapLookup(e.st, mt, m.S, k)
		return boolVal(present)
	case "jarr_kind", "jarr_len":
		// JSON content of a byte slice decoded as an array of the element type of the second argument (a dummy value)
		argn(2)
		b := e.eval(x.Args[0])
		es := c.sortOf(e.eval(x.Args[1]).T)
		if x.Fn == "jarr_kind" {
			return intVal(e.x.jsonArrKind(b, es))
		}
		return intVal(e.x.jsonArrLen(b, es))
	case "jarr_at":
		argn(3)
		b := e.eval(x.Args[0])
		d := e.eval(x.Args[2])
		return scalar(d.T, e.x.jsonArrElem(b, c.sortOf(d.T), e.evalInt(x.Args[1])))
	case "jobj_kind", "jobj_card":
		argn(3)
		b := e.eval(x.Args[0])
		ks, vs := c.sortOf(e.eval(x.Args[1]).T), e.x.jsonValSort(e.eval(x.Args[2]))
		if x.Fn == "jobj_kind" {
			return intVal(e.x.jsonObjKind(b, ks, vs))
		}
		return intVal(e.x.jsonObjCard(b, ks, vs))
	case "jobj_has":
		argn(3)
		b := e.eval(x.Args[0])
		k := e.eval(x.Args[1])
		return boolVal(e.x.jsonObjHas(b, c.sortOf(k.T), e.x.jsonValSort(e.eval(x.Args[2])), k.S))
	case "jobj_val":
		argn(3)
		b := e.eval(x.Args[0])
		k := e.eval(x.Args[1])
		d := e.eval(x.Args[2])
		return scalar(d.T, e.x.jsonObjVal(b, c.sortOf(k.T), e.x.jsonValSort(d), k.S))
	case "fst", "snd":
		argn(1)
		v := e.eval(x.Args[0])
		if v.K != KTuple || len(v.Fs) < 2 {
			efail("%s needs a pair", x.Fn)
		}
		if x.Fn == "fst" {
			return v.Fs[0]
		}
		return v.Fs[1]
	case "logfun":
		// logfun(n): the function value applied by the n-th callback application
		argn(1)
		return intVal(sel(e.x.logFun(e.st).S, e.evalInt(x.Args[0])))
	case "logarg":
		// logarg(n, c, d): component c of the arguments of the n-th application, typed like d
		argn(3)
		d := e.eval(x.Args[2])
		srt := c.sortOf(d.T)
		return scalar(d.T, sel(sel(e.x.logArgs(e.st, srt).S, e.evalInt(x.Args[0])), e.evalInt(x.Args[1])))
	case "plus":
		// a + b wrapped in the function symbol idx (defining axiom idx(a,b) = a+b): keeps the sum intact as a
		// quantifier trigger where the solvers would otherwise flatten it into the surrounding arithmetic
		argn(2)
		return intVal(e.x.eidx(e.evalInt(x.Args[0]), e.evalInt(x.Args[1])))
	case "fdiv":
		// floor division (SMT div); equals Go's / for non-negative dividends and >> for shifts
		argn(2)
		return intVal(app("div", e.evalInt(x.Args[0]), e.evalInt(x.Args[1])))
	case "idmap":
		argn(0)
		if _, ok := c.funs["idmap"]; !ok {
			c.DeclFun("idmap", nil, arrSort("Int", "Int"))
			c.Assume("(forall ((i Int)) (! (= (select idmap i) i) :pattern ((select idmap i))))")
		}
		return Val{K: KScalar, Srt: arrSort("Int", "Int"), S: "idmap"}
	case "store":
		argn(3)
		m := e.eval(x.Args[0])
		r := m
		r.S = store(m.S, e.evalInt(x.Args[1]), e.eval(x.Args[2]).S)
		return r
	case "refmap":
		// refmap(e): an arbitrary ghost map from integers to references of e's type
		argn(1)
		v := e.eval(x.Args[0])
		if v.T == nil {
			efail("refmap: untyped argument")
		}
		return Val{K: KMapView, T: v.T, Srt: arrSort("Int", "Int"), S: c.Fresh("refmap", arrSort("Int", "Int"))}
	case "swap":
		argn(3)
		m := e.eval(x.Args[0])
		i, j := e.evalInt(x.Args[1]), e.evalInt(x.Args[2])
		return Val{K: KScalar, Srt: m.Srt, S: store(store(m.S, i, sel(m.S, j)), j, sel(m.S, i))}
	case "maplam":
		// maplam(\k. e): the integer map defined pointwise by e
		argn(1)
		lam := e.eval(x.Args[0])
		if lam.K != KLambda {
			efail("maplam needs a lambda")
		}
		arr := c.Fresh("maplam", arrSort("Int", "Int"))
		k := c.boundVar("k")
		ch := lam.Lam.Env.child()
		ch.vars[lam.Lam.Vars[0].Name] = intVal(k)
		body := ch.eval(lam.Lam.Body)
		c.Assume(fmt.Sprintf("(forall ((%s Int)) (! (= (select %s %s) %s) :pattern ((select %s %s))))", k, arr, k, body.S, arr, k))
		return Val{K: KScalar, Srt: arrSort("Int", "Int"), S: arr}
	case "argof":
		// argof(f, i): a dummy value of the type of f's i-th parameter (for typed binders)
		argn(2)
		f := e.eval(x.Args[0])
		sig, ok := f.T.Underlying().(*types.Signature)
		if !ok {
			efail("argof: not a function")
		}
		var i int
		fmt.Sscan(e.evalInt(x.Args[1]), &i)
		return c.zero(sig.Params().At(i).Type())
	case "keyof", "valof", "elemof":
		// a dummy value carrying the key / value / element type (for typed binders: forall x like keyof(m.m) :: ...)
		argn(1)
		v := e.eval(x.Args[0])
		if v.T == nil {
			efail("%s: untyped argument", x.Fn)
		}
		switch u := v.T.Underlying().(type) {
		case *types.Map:
			if x.Fn == "keyof" {
				return c.zero(u.Key())
			}
			if x.Fn == "valof" {
				return c.zero(u.Elem())
			}
		case *types.Slice:
			if x.Fn == "elemof" {
				return c.zero(u.Elem())
			}
		}
		efail("%s of %s", x.Fn, describe(v))
	case "pow2":
		argn(1)
		c.DeclFun("pow2", []string{"Int"}, "Int")
		return intVal(app("pow2", e.evalInt(x.Args[0])))
	case "zero":
		argn(1)
		v := e.eval(x.Args[0])
		return c.zero(v.T)
	case "hasPrefix":
		argn(2)
		c.DeclSort("Str")
		if _, ok := c.funs["str_hasprefix"]; !ok {
			c.DeclFun("str_hasprefix", []string{"Str", "Str"}, "Bool")
			c.DeclFun("str_concat", []string{"Str", "Str"}, "Str")
			// a prefix of the left operand is a prefix of the concatenation
			c.Assume("(forall ((a Str) (b Str) (p Str)) (! (=> (str_hasprefix a p) (str_hasprefix (str_concat a b) p)) :pattern ((str_hasprefix (str_concat a b) p))))")
		}
		sv, pv := e.eval(x.Args[0]), e.eval(x.Args[1])
		// ground facts between the string literals seen so far (decided here, by Go's own strings.HasPrefix)
		if lit, ok := x.Args[1].(*EStr); ok {
			var texts []string
			for t := range e.x.strs {
				texts = append(texts, t)
			}
			sort.Strings(texts)
			for _, t := range texts {
				fact := app("str_hasprefix", e.x.strs[t], pv.S)
				if !strings.HasPrefix(t, lit.V) {
					fact = not(fact)
				}
				key := "hasprefix|" + t + "|" + lit.V
				if !e.x.emitted[key] {
					e.x.emitted[key] = true
					c.Assume(fact)
					// strings.TrimRight(s, t) keeps a prefix whose last character is not in the cutset t
					if _, ok := c.funs["str_trimright"]; ok && lit.V != "" {
						rs := []rune(lit.V)
						if !strings.ContainsRune(t, rs[len(rs)-1]) {
							c.Assume(fmt.Sprintf("(forall ((s Str)) (! (=> (str_hasprefix s %s) (str_hasprefix (str_trimright s %s) %s)) :pattern ((str_hasprefix (str_trimright s %s) %s))))",
								pv.S, e.x.strs[t], pv.S, e.x.strs[t], pv.S))
						}
					}
				}
			}
		}
		return boolVal(app("str_hasprefix", sv.S, pv.S))
	}
	// predicate / spec function (macro expansion)
	if p := e.x.eng.pred(e.pkg, x.Fn); p != nil {
		if len(p.Params) != len(x.Args) {
			efail("%s expects %d arguments", x.Fn, len(p.Params))
		}
		ch := &Env{x: e.x, st: e.st, old: e.old, vars: map[string]Val{}, pkg: p.Pkg}
		for i, a := range x.Args {
			ch.vars[p.Params[i]] = e.eval(a)
		}
		e.x.depth++
		if e.x.depth > 40 {
			efail("predicate expansion too deep (recursive predicate %s?)", x.Fn)
		}
		defer func() { e.x.depth-- }()
		return ch.eval(p.Body)
	}
	// application of a func-typed variable
	if v, ok := e.find(x.Fn); ok {
		var args []Val
		for _, a := range x.Args {
			args = append(args, e.eval(a))
		}
		if v.K == KLambda {
			ch := v.Lam.Env.child()
			for i, b := range v.Lam.Vars {
				ch.vars[b.Name] = args[i]
			}
			return ch.eval(v.Lam.Body)
		}
		return e.x.applyFunc(v, args)
	}
	efail("unknown function or predicate %q", x.Fn)
	return Val{}
}

// ---------- conjunct splitting and printing ----------

type conjunct struct {
	Text string
	Term string
	Alts []conjunct // pieces of a universally quantified conjunction: tried when the whole formula is not discharged
}

// conjuncts splits a formula at top-level conjunctions, looking through predicate applications,
// so that every conjunct becomes its own (small, precisely named) obligation.
func (e *Env) conjuncts(ex Expr, depth int) []conjunct {
	switch x := ex.(type) {
	case *EBin:
		if x.Op == "&&" {
			return append(e.conjuncts(x.L, depth), e.conjuncts(x.R, depth)...)
		}
	case *EQuant:
		if x.Forall {
			parts := e.splitUnderForall(x.Body, 0)
			if len(parts) > 1 {
				whole := conjunct{Text: fmtExpr(ex), Term: e.evalBool(ex)}
				for _, p := range parts {
					q := &EQuant{true, x.Vars, p}
					whole.Alts = append(whole.Alts, conjunct{Text: fmtExpr(q), Term: e.evalBool(q)})
				}
				return []conjunct{whole}
			}
		}
	case *ECall:
		if p := e.x.eng.pred(e.pkg, x.Fn); p != nil && depth < 4 && len(p.Params) == len(x.Args) {
			if b, ok := p.Body.(*EBin); ok && b.Op == "&&" {
				ch := &Env{x: e.x, st: e.st, old: e.old, vars: map[string]Val{}, pkg: p.Pkg}
				for i, a := range x.Args {
					ch.vars[p.Params[i]] = e.eval(a)
				}
				var out []conjunct
				for _, c := range ch.conjuncts(p.Body, depth+1) {
					out = append(out, conjunct{fmtExpr(x) + " / " + c.Text, c.Term, c.Alts})
				}
				return out
			}
		}
	}
	return []conjunct{{Text: fmtExpr(ex), Term: e.evalBool(ex)}}
}

func fmtExpr(ex Expr) string {
	switch x := ex.(type) {
	case *EIdent:
		return x.Name
	case *EInt:
		return x.V
	case *EBool:
		if x.V {
			return "true"
		}
		return "false"
	case *ENil:
		return "nil"
	case *EStr:
		return fmt.Sprintf("%q", x.V)
	case *EField:
		return fmtExpr(x.X) + "." + x.Name
	case *EIndex:
		return fmtExpr(x.X) + "[" + fmtExpr(x.I) + "]"
	case *ESlice:
		lo, hi := "", ""
		if x.Lo != nil {
			lo = fmtExpr(x.Lo)
		}
		if x.Hi != nil {
			hi = fmtExpr(x.Hi)
		}
		return fmtExpr(x.X) + "[" + lo + ":" + hi + "]"
	case *ECall:
		var as []string
		for _, a := range x.Args {
			as = append(as, fmtExpr(a))
		}
		return x.Fn + "(" + strings.Join(as, ", ") + ")"
	case *EApply:
		var as []string
		for _, a := range x.Args {
			as = append(as, fmtExpr(a))
		}
		return fmtExpr(x.F) + "(" + strings.Join(as, ", ") + ")"
	case *EUn:
		return x.Op + fmtExpr(x.X)
	case *EBin:
		return "(" + fmtExpr(x.L) + " " + x.Op + " " + fmtExpr(x.R) + ")"
	case *EQuant:
		kw := "exists"
		if x.Forall {
			kw = "forall"
		}
		var bs []string
		for _, b := range x.Vars {
			bs = append(bs, b.Name)
		}
		return kw + " " + strings.Join(bs, ", ") + " :: " + fmtExpr(x.Body)
	case *ESeqLit:
		var as []string
		for _, a := range x.Elems {
			as = append(as, fmtExpr(a))
		}
		return "[" + strings.Join(as, ", ") + "]"
	case *ELet:
		return "let " + x.Name + " := " + fmtExpr(x.Val) + " in " + fmtExpr(x.Body)
	case *ELambda:
		return "\\" + x.Vars[0].Name + ". " + fmtExpr(x.Body)
	}
	return "?"
}

// ---------- syntactic splitting under universal quantifiers ----------

// substExpr replaces free identifiers by expressions (no capture handling beyond shadowing).
func substExpr(ex Expr, m map[string]Expr) Expr {
	if len(m) == 0 {
		return ex
	}
	without := func(names []string) map[string]Expr {
		n := map[string]Expr{}
		for k, v := range m {
			n[k] = v
		}
		for _, k := range names {
			delete(n, k)
		}
		return n
	}
	switch x := ex.(type) {
	case *EIdent:
		if r, ok := m[x.Name]; ok {
			return r
		}
		return x
	case *EField:
		return &EField{substExpr(x.X, m), x.Name}
	case *EIndex:
		return &EIndex{substExpr(x.X, m), substExpr(x.I, m)}
	case *ESlice:
		r := &ESlice{X: substExpr(x.X, m)}
		if x.Lo != nil {
			r.Lo = substExpr(x.Lo, m)
		}
		if x.Hi != nil {
			r.Hi = substExpr(x.Hi, m)
		}
		return r
	case *ECall:
		r := &ECall{Fn: x.Fn}
		if rep, ok := m[x.Fn]; ok {
			// application of a substituted function-valued parameter
			var args []Expr
			for _, a := range x.Args {
				args = append(args, substExpr(a, m))
			}
			return &EApply{rep, args}
		}
		for _, a := range x.Args {
			r.Args = append(r.Args, substExpr(a, m))
		}
		return r
	case *EApply:
		r := &EApply{F: substExpr(x.F, m)}
		for _, a := range x.Args {
			r.Args = append(r.Args, substExpr(a, m))
		}
		return r
	case *EUn:
		return &EUn{x.Op, substExpr(x.X, m)}
	case *EBin:
		return &EBin{x.Op, substExpr(x.L, m), substExpr(x.R, m)}
	case *EQuant:
		var names []string
		vars := make([]Binder, len(x.Vars))
		for i, b := range x.Vars {
			vars[i] = b
			if b.Like != nil {
				vars[i].Like = substExpr(b.Like, m)
			}
			names = append(names, b.Name)
		}
		return &EQuant{x.Forall, vars, substExpr(x.Body, without(names))}
	case *ESeqLit:
		r := &ESeqLit{}
		for _, a := range x.Elems {
			r.Elems = append(r.Elems, substExpr(a, m))
		}
		return r
	case *ELet:
		return &ELet{x.Name, substExpr(x.Val, m), substExpr(x.Body, without([]string{x.Name}))}
	case *ELambda:
		var names []string
		vars := make([]Binder, len(x.Vars))
		for i, b := range x.Vars {
			vars[i] = b
			if b.Like != nil {
				vars[i].Like = substExpr(b.Like, m)
			}
			names = append(names, b.Name)
		}
		return &ELambda{vars, substExpr(x.Body, without(names))}
	}
	return ex
}

// splitUnderForall splits the body of a universal quantifier into conjuncts: A ==> (B && C) gives A ==> B, A ==> C;
// predicate applications whose body is such a formula are unfolded syntactically (same package scope only).
func (e *Env) splitUnderForall(body Expr, depth int) []Expr {
	switch x := body.(type) {
	case *EBin:
		switch x.Op {
		case "&&":
			return append(e.splitUnderForall(x.L, depth), e.splitUnderForall(x.R, depth)...)
		case "==>":
			var out []Expr
			for _, r := range e.splitUnderForall(x.R, depth) {
				out = append(out, &EBin{"==>", x.L, r})
			}
			return out
		}
	case *ECall:
		if p := e.x.eng.pred(e.pkg, x.Fn); p != nil && depth < 3 && len(p.Params) == len(x.Args) && p.Pkg == e.pkg {
			m := map[string]Expr{}
			for i, a := range x.Args {
				m[p.Params[i]] = a
			}
			return e.splitUnderForall(substExpr(p.Body, m), depth+1)
		}
	}
	return []Expr{body}
}
