package main

// Contract language: parser for the //@ directives of <pkg>/contracts_verif.go.

import (
	"fmt"
	"go/ast"
	"strconv"
	"strings"
	"unicode"
)

// ---------- AST ----------

type Expr interface{}

type (
	EIdent struct{ Name string }
	EInt   struct{ V string }
	EBool  struct{ V bool }
	ENil   struct{}
	EStr   struct{ V string }
	EField struct {
		X    Expr
		Name string
	}
	EIndex struct{ X, I Expr }
	ESlice struct{ X, Lo, Hi Expr }
	ECall  struct {
		Fn   string // possibly qualified "pkg.Name"
		Args []Expr
	}
	EApply struct { // application of a func-typed value expression
		F    Expr
		Args []Expr
	}
	EUn struct {
		Op string
		X  Expr
	}
	EBin struct {
		Op   string
		L, R Expr
	}
	EQuant struct {
		Forall bool
		Vars   []Binder
		Body   Expr
	}
	ESeqLit struct{ Elems []Expr }
	ELet    struct {
		Name      string
		Val, Body Expr
	}
	ELambda struct {
		Vars []Binder
		Body Expr
	}
)

type Binder struct {
	Name string
	Like Expr   // type taken from this expression, or
	Type string // "int" | "bool"
}

type Clause struct {
	Tags  []string
	Label string
	E     Expr
	Text  string
	Line  int
	// Internal: a postcondition that is proved like any other but assumed only at call sites inside the callee's own
	// package ("ensures [Cxx] internal label: e"). Callers elsewhere see less, which is sound, and their proofs do not
	// carry quantifiers they have no use for (the red-black colour layer under the tree map/set/bidimap wrappers).
	Internal bool
}

type ModItem struct {
	Kind  string // "field" | "elems" | "map" | "each" | "nothing"
	X     Expr   // object expression (field: owner; elems: slice; map: map)
	Field string
	// each:
	Var    Binder
	Where  Expr
	Fields []string
	Text   string
}

type GhostVar struct {
	Name string
	Init Expr
	Step Expr // evaluated at back edges; may mention the ghost var itself and program variables
}

type LoopSpec struct {
	Ord        int
	Invariants []Clause
	Decreases  []Expr
	GhostVars  []GhostVar
}

type GhostStmt struct {
	Anchor string // "entry" | "exit" | "backedge N" | "before F#n" | "after F#n"
	Cond   Expr
	// target
	Kind  string // "field" (X.Field := V) | "bulk" (Field := lambda over ref) | "seqfield" (X.Field := lambda over index)
	X     Expr
	Field string
	Owner string // for bulk: type name
	V     Expr
	Idx   Expr
	Text  string
	Line  int
}

type FuncSpec struct {
	Pkg       string
	Key       string // "Recv.Name" or "Name"
	Requires  []Clause
	Ensures   []Clause
	Modifies  []ModItem
	HasMod    bool
	Loops     map[int]*LoopSpec
	Ghost     []GhostStmt
	Inline    bool
	Trusted   bool
	PanicsIff Expr
	Props     []string
	Line      int
	Decreases []Expr
	NoVerify  string            // reason: listed as not verified (contract assumed)
	GhostVars []GhostVar        // function-level ghost variables (Init only)
	GhostRes  map[string]string // ghost results: name -> "int" | "mapint" | "bool"
	Focus     []FocusSpec
	// Budget: solver time budget multiplier for this function's obligations ("budget 4"): for the few proofs whose
	// obligations need 10-15 s, so that they are decided well inside the budget instead of around it
	Budget int
	// ThoroughOnly: the body is verified in the thorough tier only; in the quick tier the contract is assumed (and listed as
	// such). For a proof whose obligations need tens of seconds each.
	ThoroughOnly bool
}

// FocusSpec: proof hint. Obligations whose name (after "pkg.Func:") matches Obl are first tried with only those labelled
// assumptions (requires, loop invariants, callee postconditions, lemmas) whose tag matches one of Keep; the full context
// is the fallback. Dropping assumptions can only make a proof harder, never unsound.
type FocusSpec struct {
	Obl  string
	Keep []string
}

type PredDef struct {
	Pkg    string
	Name   string
	Params []string
	Body   Expr
	Text   string
}

type GhostField struct {
	Pkg   string
	Owner string // struct type name
	Name  string
	// Type: "int" | "bool" | "like F" | "map like F" | "map int"
	Type string
	// Local ("ghost field T.f int local"): the field belongs to its package's private proof layer. Contracts of other
	// packages must not mention it; in exchange, callers in other packages neither havoc it nor answer for it in their
	// frames (no verification condition of theirs can depend on it, so this is sound).
	Local bool
}

type Lemma struct {
	Pkg      string
	Name     string
	Vars     []Binder
	Requires []Clause
	Ensures  []Clause
	Props    []string
	Induct   string // "" | variable name (strong induction on a natural)
}

type SpecFile struct {
	Pkg    string
	Preds  map[string]*PredDef
	Funcs  map[string]*FuncSpec
	Ghosts []GhostField
	Lemmas []*Lemma
}

// ---------- lexer ----------

type tok struct {
	k string // "id" "int" "str" "op" "eof"
	s string
}

func lex(src string) ([]tok, error) {
	var ts []tok
	rs := []rune(src)
	i := 0
	for i < len(rs) {
		r := rs[i]
		switch {
		case unicode.IsSpace(r):
			i++
		case r == '-' && i+1 < len(rs) && rs[i+1] == '-' && (i+2 >= len(rs) || rs[i+2] == ' '):
			// comment to end of line
			for i < len(rs) && rs[i] != '\n' {
				i++
			}
		case unicode.IsLetter(r) || r == '_':
			j := i
			for j < len(rs) && (unicode.IsLetter(rs[j]) || unicode.IsDigit(rs[j]) || rs[j] == '_') {
				j++
			}
			ts = append(ts, tok{"id", string(rs[i:j])})
			i = j
		case unicode.IsDigit(r):
			j := i
			for j < len(rs) && unicode.IsDigit(rs[j]) {
				j++
			}
			ts = append(ts, tok{"int", string(rs[i:j])})
			i = j
		case r == '"':
			j := i + 1
			for j < len(rs) && rs[j] != '"' {
				if rs[j] == '\\' {
					j++
				}
				j++
			}
			if j >= len(rs) {
				return nil, fmt.Errorf("unterminated string")
			}
			s, err := strconv.Unquote(string(rs[i : j+1]))
			if err != nil {
				return nil, err
			}
			ts = append(ts, tok{"str", s})
			i = j + 1
		default:
			ops := []string{"<==>", "==>", "::", ":=", "==", "!=", "<=", ">=", "&&", "||", "++", "=>", "->",
				"<", ">", "!", "+", "-", "*", "/", "%", "(", ")", "[", "]", "{", "}", ",", ":", ".", "#", "|", "\\"}
			matched := false
			for _, op := range ops {
				if strings.HasPrefix(string(rs[i:min(i+len(op), len(rs))]), op) {
					ts = append(ts, tok{"op", op})
					i += len([]rune(op))
					matched = true
					break
				}
			}
			if !matched {
				return nil, fmt.Errorf("unexpected character %q", r)
			}
		}
	}
	ts = append(ts, tok{"eof", ""})
	return ts, nil
}

// ---------- expression parser (Pratt) ----------

type parser struct {
	ts []tok
	p  int
}

func (p *parser) peek() tok { return p.ts[p.p] }
func (p *parser) next() tok { t := p.ts[p.p]; p.p++; return t }
func (p *parser) isOp(s string) bool {
	t := p.peek()
	return t.k == "op" && t.s == s
}
func (p *parser) isId(s string) bool {
	t := p.peek()
	return t.k == "id" && t.s == s
}
func (p *parser) expectOp(s string) {
	if !p.isOp(s) {
		panic(fmt.Errorf("expected %q, got %q", s, p.peek().s))
	}
	p.p++
}
func (p *parser) expectId() string {
	t := p.next()
	if t.k != "id" {
		panic(fmt.Errorf("expected identifier, got %q", t.s))
	}
	return t.s
}

var binPrec = map[string]int{
	"<==>": 1, "==>": 2, "||": 3, "&&": 4,
	"==": 5, "!=": 5, "<": 5, "<=": 5, ">": 5, ">=": 5, "in": 5,
	"++": 6, "+": 7, "-": 7, "*": 8, "/": 8, "%": 8,
}

func (p *parser) parseExpr(minPrec int) Expr {
	lhs := p.parseUnary()
	for {
		t := p.peek()
		var op string
		if t.k == "op" {
			op = t.s
		} else if t.k == "id" && t.s == "in" {
			op = "in"
		} else {
			break
		}
		prec, ok := binPrec[op]
		if !ok || prec < minPrec {
			break
		}
		p.p++
		var rhs Expr
		if op == "==>" {
			rhs = p.parseExpr(prec) // right assoc
		} else {
			rhs = p.parseExpr(prec + 1)
		}
		lhs = &EBin{op, lhs, rhs}
	}
	return lhs
}

func (p *parser) parseBinders() []Binder {
	var bs []Binder
	for {
		name := p.expectId()
		b := Binder{Name: name, Type: "int"}
		if p.isId("like") {
			p.p++
			b.Like = p.parseExpr(6)
			b.Type = ""
		} else if p.isId("int") || p.isId("bool") {
			b.Type = p.next().s
		}
		bs = append(bs, b)
		if p.isOp(",") {
			p.p++
			continue
		}
		break
	}
	// binders without explicit type take the type of the next binder that has "like"? no: default int.
	return bs
}

func (p *parser) parseUnary() Expr {
	t := p.peek()
	if t.k == "op" && (t.s == "!" || t.s == "-") {
		p.p++
		x := p.parseUnary()
		return &EUn{t.s, x}
	}
	if t.k == "id" && (t.s == "forall" || t.s == "exists") {
		p.p++
		bs := p.parseBinders()
		p.expectOp("::")
		body := p.parseExpr(0)
		return &EQuant{t.s == "forall", bs, body}
	}
	if t.k == "id" && t.s == "let" {
		p.p++
		name := p.expectId()
		p.expectOp(":=")
		v := p.parseExpr(0)
		if !p.isId("in") {
			panic(fmt.Errorf("expected 'in' in let"))
		}
		p.p++
		body := p.parseExpr(0)
		return &ELet{name, v, body}
	}
	if t.k == "op" && t.s == "\\" {
		p.p++
		bs := p.parseBinders()
		if p.isOp("=>") {
			p.p++
		} else {
			p.expectOp(".")
		}
		body := p.parseExpr(0)
		return &ELambda{bs, body}
	}
	return p.parsePostfix(p.parsePrimary())
}

func (p *parser) parsePrimary() Expr {
	t := p.next()
	switch t.k {
	case "int":
		return &EInt{t.s}
	case "str":
		return &EStr{t.s}
	case "id":
		switch t.s {
		case "true":
			return &EBool{true}
		case "false":
			return &EBool{false}
		case "nil":
			return &ENil{}
		}
		// qualified call pkg.Name( ... ) or plain call
		if p.isOp("(") {
			p.p++
			args := p.parseArgs(")")
			return &ECall{t.s, args}
		}
		if p.isOp(".") && p.p+2 < len(p.ts) && p.ts[p.p+1].k == "id" && p.ts[p.p+2].k == "op" && p.ts[p.p+2].s == "(" && isPkgQualifier(t.s) {
			p.p++
			name := p.expectId()
			p.expectOp("(")
			args := p.parseArgs(")")
			return &ECall{t.s + "." + name, args}
		}
		return &EIdent{t.s}
	case "op":
		switch t.s {
		case "(":
			e := p.parseExpr(0)
			p.expectOp(")")
			return e
		case "[":
			elems := p.parseArgs("]")
			return &ESeqLit{elems}
		}
	}
	panic(fmt.Errorf("unexpected token %q", t.s))
}

// package qualifiers are registered by the loader (all package names of /repo)
var pkgQualifiers = map[string]bool{}

func isPkgQualifier(s string) bool { return pkgQualifiers[s] }

func (p *parser) parseArgs(close string) []Expr {
	var args []Expr
	if p.isOp(close) {
		p.p++
		return args
	}
	for {
		args = append(args, p.parseExpr(0))
		if p.isOp(",") {
			p.p++
			continue
		}
		p.expectOp(close)
		return args
	}
}

func (p *parser) parsePostfix(x Expr) Expr {
	for {
		switch {
		case p.isOp("."):
			p.p++
			name := p.expectId()
			x = &EField{x, name}
		case p.isOp("["):
			p.p++
			var lo, hi Expr
			if p.isOp(":") {
				p.p++
				if !p.isOp("]") {
					hi = p.parseExpr(0)
				}
				p.expectOp("]")
				x = &ESlice{x, nil, hi}
				continue
			}
			lo = p.parseExpr(0)
			if p.isOp(":") {
				p.p++
				if !p.isOp("]") {
					hi = p.parseExpr(0)
				}
				p.expectOp("]")
				x = &ESlice{x, lo, hi}
				continue
			}
			p.expectOp("]")
			x = &EIndex{x, lo}
		case p.isOp("("):
			p.p++
			args := p.parseArgs(")")
			x = &EApply{x, args}
		default:
			return x
		}
	}
}

func parseExprString(s string) (e Expr, err error) {
	defer func() {
		if r := recover(); r != nil {
			if er, ok := r.(error); ok {
				err = fmt.Errorf("%v in %q", er, s)
				return
			}
			panic(r)
		}
	}()
	ts, err := lex(s)
	if err != nil {
		return nil, fmt.Errorf("%v in %q", err, s)
	}
	p := &parser{ts: ts}
	e = p.parseExpr(0)
	if p.peek().k != "eof" {
		return nil, fmt.Errorf("trailing tokens at %q in %q", p.peek().s, s)
	}
	return e, nil
}

// ---------- directive parser ----------

var directiveKeywords = map[string]bool{
	"pred": true, "ghost": true, "func": true, "requires": true, "ensures": true, "modifies": true,
	"inline": true, "trusted": true, "loop": true, "invariant": true, "decreases": true, "lemma": true,
	"panics-iff": true, "props": true, "ghostvar": true, "at": true, "vars": true, "induction": true, "noverify": true,
	"assert": true, "ghostresult": true, "focus": true, "budget": true, "thorough-only": true,
}

type rawDirective struct {
	kw   string
	text string
	line int
}

func collectDirectives(f *ast.File, lineOf func(ast.Node) int) []rawDirective {
	var ds []rawDirective
	for _, cg := range f.Comments {
		for _, c := range cg.List {
			t := c.Text
			var body string
			if strings.HasPrefix(t, "//@") {
				body = t[3:]
			} else if strings.HasPrefix(t, "// @") {
				body = t[4:]
			} else {
				continue
			}
			// strip trailing comment
			if i := strings.Index(body, " -- "); i >= 0 {
				body = body[:i]
			}
			trim := strings.TrimSpace(body)
			if trim == "" {
				continue
			}
			first := strings.Fields(trim)[0]
			kw := strings.TrimSuffix(first, ":")
			if directiveKeywords[kw] {
				ds = append(ds, rawDirective{kw, strings.TrimSpace(trim[len(first):]), lineOf(c)})
			} else if len(ds) > 0 {
				ds[len(ds)-1].text += " " + trim
			}
		}
	}
	return ds
}

func parseTags(s string) ([]string, string, string) {
	s = strings.TrimSpace(s)
	var tags []string
	label := ""
	if strings.HasPrefix(s, "[") {
		i := strings.Index(s, "]")
		for _, t := range strings.Fields(s[1:i]) {
			tags = append(tags, t)
		}
		s = strings.TrimSpace(s[i+1:])
	}
	// optional label:  name: expr   where name is lower-case ident followed by ':' but not '::' or ':='
	if i := strings.Index(s, ":"); i > 0 && i+1 < len(s) && s[i+1] != ':' && s[i+1] != '=' {
		cand := s[:i]
		ok := true
		for _, r := range cand {
			if !(unicode.IsLetter(r) || unicode.IsDigit(r) || r == '-' || r == '_') {
				ok = false
			}
		}
		if ok {
			label = cand
			s = strings.TrimSpace(s[i+1:])
		}
	}
	return tags, label, s
}

func parseClause(d rawDirective) (Clause, error) {
	text := strings.TrimSpace(d.text)
	internal := false
	// "internal" directly after the optional tag list
	tagsPart := ""
	if strings.HasPrefix(text, "[") {
		if i := strings.Index(text, "]"); i >= 0 {
			tagsPart, text = text[:i+1]+" ", strings.TrimSpace(text[i+1:])
		}
	}
	if strings.HasPrefix(text, "internal ") {
		internal = true
		text = strings.TrimSpace(text[len("internal "):])
	}
	text = tagsPart + text
	tags, label, rest := parseTags(text)
	e, err := parseExprString(rest)
	if err != nil {
		return Clause{}, fmt.Errorf("line %d: %v", d.line, err)
	}
	return Clause{Tags: tags, Label: label, E: e, Text: rest, Line: d.line, Internal: internal}, nil
}

func splitTop(s string, sep rune) []string {
	var parts []string
	depth := 0
	cur := strings.Builder{}
	for _, r := range s {
		switch r {
		case '(', '[', '{':
			depth++
		case ')', ']', '}':
			depth--
		}
		if r == sep && depth == 0 {
			parts = append(parts, strings.TrimSpace(cur.String()))
			cur.Reset()
			continue
		}
		cur.WriteRune(r)
	}
	if strings.TrimSpace(cur.String()) != "" {
		parts = append(parts, strings.TrimSpace(cur.String()))
	}
	return parts
}

func parseModifies(text string, line int) ([]ModItem, error) {
	var items []ModItem
	text = strings.TrimSpace(text)
	if text == "nothing" {
		return []ModItem{{Kind: "nothing", Text: text}}, nil
	}
	// "each x like E where COND : x.f, x.g" is a single item and must be alone on its directive
	if strings.HasPrefix(text, "each ") {
		rest := text[5:]
		wi := strings.Index(rest, " where ")
		ci := strings.LastIndex(rest, " : ")
		if wi < 0 || ci < wi {
			return nil, fmt.Errorf("line %d: bad 'each' modifies", line)
		}
		bs := strings.TrimSpace(rest[:wi])
		li := strings.Index(bs, " like ")
		if li < 0 {
			return nil, fmt.Errorf("line %d: each needs 'like'", line)
		}
		like, err := parseExprString(bs[li+6:])
		if err != nil {
			return nil, err
		}
		where, err := parseExprString(rest[wi+7 : ci])
		if err != nil {
			return nil, err
		}
		v := strings.TrimSpace(bs[:li])
		var fields []string
		for _, f := range strings.Split(rest[ci+3:], ",") {
			f = strings.TrimSpace(f)
			f = strings.TrimPrefix(f, v+".")
			fields = append(fields, f)
		}
		return []ModItem{{Kind: "each", Var: Binder{Name: v, Like: like}, Where: where, Fields: fields, Text: text}}, nil
	}
	for _, part := range splitTop(text, ',') {
		if part == "elems(*)" {
			items = append(items, ModItem{Kind: "allelems", Text: part})
			continue
		}
		if strings.HasPrefix(part, "elems(") && strings.HasSuffix(part, ")") {
			e, err := parseExprString(part[6 : len(part)-1])
			if err != nil {
				return nil, err
			}
			items = append(items, ModItem{Kind: "elems", X: e, Text: part})
			continue
		}
		if strings.HasPrefix(part, "deref(") && strings.HasSuffix(part, ")") {
			e, err := parseExprString(part[6 : len(part)-1])
			if err != nil {
				return nil, err
			}
			items = append(items, ModItem{Kind: "deref", X: e, Text: part})
			continue
		}
		if strings.HasPrefix(part, "map(") && strings.HasSuffix(part, ")") {
			e, err := parseExprString(part[4 : len(part)-1])
			if err != nil {
				return nil, err
			}
			items = append(items, ModItem{Kind: "map", X: e, Text: part})
			continue
		}
		e, err := parseExprString(part)
		if err != nil {
			return nil, err
		}
		fe, ok := e.(*EField)
		if !ok {
			return nil, fmt.Errorf("line %d: modifies item %q is not a field location", line, part)
		}
		items = append(items, ModItem{Kind: "field", X: fe.X, Field: fe.Name, Text: part})
	}
	return items, nil
}

func parseSpecFile(pkg string, f *ast.File, lineOf func(ast.Node) int) (*SpecFile, error) {
	sf := &SpecFile{Pkg: pkg, Preds: map[string]*PredDef{}, Funcs: map[string]*FuncSpec{}}
	ds := collectDirectives(f, lineOf)
	var cur *FuncSpec
	var curLoop *LoopSpec
	var curLemma *Lemma
	for _, d := range ds {
		switch d.kw {
		case "pred":
			// Name(a, b) := expr
			i := strings.Index(d.text, ":=")
			if i < 0 {
				return nil, fmt.Errorf("line %d: pred without :=", d.line)
			}
			head := strings.TrimSpace(d.text[:i])
			lp := strings.Index(head, "(")
			name := strings.TrimSpace(head[:lp])
			var params []string
			for _, p := range strings.Split(strings.TrimSuffix(head[lp+1:], ")"), ",") {
				if p = strings.TrimSpace(p); p != "" {
					params = append(params, strings.Fields(p)[0])
				}
			}
			body, err := parseExprString(d.text[i+2:])
			if err != nil {
				return nil, fmt.Errorf("line %d: %v", d.line, err)
			}
			sf.Preds[name] = &PredDef{pkg, name, params, body, d.text}
			cur, curLoop, curLemma = nil, nil, nil
		case "ghost":
			// ghost field Owner.name TYPE
			fs := strings.Fields(d.text)
			if len(fs) < 3 || fs[0] != "field" {
				return nil, fmt.Errorf("line %d: bad ghost directive", d.line)
			}
			on := strings.SplitN(fs[1], ".", 2)
			ty := strings.Join(fs[2:], " ")
			local := false
			if strings.HasSuffix(ty, " local") {
				local, ty = true, strings.TrimSuffix(ty, " local")
			}
			sf.Ghosts = append(sf.Ghosts, GhostField{pkg, on[0], on[1], ty, local})
			cur, curLoop, curLemma = nil, nil, nil
		case "func":
			key := strings.TrimSpace(d.text)
			cur = &FuncSpec{Pkg: pkg, Key: key, Loops: map[int]*LoopSpec{}, Line: d.line}
			if _, dup := sf.Funcs[key]; dup {
				return nil, fmt.Errorf("line %d: duplicate func %s", d.line, key)
			}
			sf.Funcs[key] = cur
			curLoop, curLemma = nil, nil
		case "lemma":
			curLemma = &Lemma{Pkg: pkg, Name: strings.TrimSpace(d.text)}
			sf.Lemmas = append(sf.Lemmas, curLemma)
			cur, curLoop = nil, nil
		case "vars":
			if curLemma == nil {
				return nil, fmt.Errorf("line %d: vars outside lemma", d.line)
			}
			ts, err := lex(d.text)
			if err != nil {
				return nil, err
			}
			p := &parser{ts: ts}
			curLemma.Vars = p.parseBinders()
		case "induction":
			if curLemma == nil {
				return nil, fmt.Errorf("line %d: induction outside lemma", d.line)
			}
			curLemma.Induct = strings.TrimSpace(d.text)
		case "requires", "ensures":
			c, err := parseClause(d)
			if err != nil {
				return nil, err
			}
			if curLemma != nil {
				if d.kw == "requires" {
					curLemma.Requires = append(curLemma.Requires, c)
				} else {
					curLemma.Ensures = append(curLemma.Ensures, c)
					curLemma.Props = append(curLemma.Props, c.Tags...)
				}
				continue
			}
			if cur == nil {
				return nil, fmt.Errorf("line %d: %s outside func", d.line, d.kw)
			}
			if d.kw == "requires" {
				cur.Requires = append(cur.Requires, c)
			} else {
				cur.Ensures = append(cur.Ensures, c)
			}
			cur.Props = append(cur.Props, c.Tags...)
			curLoop = nil
		case "props":
			if cur == nil {
				return nil, fmt.Errorf("line %d: props outside func", d.line)
			}
			cur.Props = append(cur.Props, strings.Fields(d.text)...)
		case "modifies":
			if cur == nil {
				return nil, fmt.Errorf("line %d: modifies outside func", d.line)
			}
			items, err := parseModifies(d.text, d.line)
			if err != nil {
				return nil, fmt.Errorf("line %d: %v", d.line, err)
			}
			cur.Modifies = append(cur.Modifies, items...)
			cur.HasMod = true
		case "inline":
			cur.Inline = true
		case "trusted":
			cur.Trusted = true
		case "noverify":
			cur.NoVerify = d.text
		case "thorough-only":
			if cur == nil {
				return nil, fmt.Errorf("line %d: thorough-only outside a func", d.line)
			}
			cur.ThoroughOnly = true
		case "budget":
			n, err := strconv.Atoi(strings.TrimSpace(d.text))
			if err != nil || n < 1 || n > 8 || cur == nil {
				return nil, fmt.Errorf("line %d: budget <1..8>", d.line)
			}
			cur.Budget = n
		case "focus":
			ci := strings.Index(d.text, " : ")
			if ci < 0 || cur == nil {
				return nil, fmt.Errorf("line %d: focus <obligation glob> : <tag glob>, ...", d.line)
			}
			fs := FocusSpec{Obl: strings.TrimSpace(d.text[:ci])}
			for _, k := range strings.Split(d.text[ci+3:], ",") {
				if k = strings.TrimSpace(k); k != "" {
					fs.Keep = append(fs.Keep, k)
				}
			}
			cur.Focus = append(cur.Focus, fs)
		case "panics-iff":
			e, err := parseExprString(d.text)
			if err != nil {
				return nil, fmt.Errorf("line %d: %v", d.line, err)
			}
			cur.PanicsIff = e
		case "loop":
			n, err := strconv.Atoi(strings.TrimSuffix(strings.TrimSpace(d.text), ":"))
			if err != nil || cur == nil {
				return nil, fmt.Errorf("line %d: bad loop directive %q", d.line, d.text)
			}
			curLoop = &LoopSpec{Ord: n}
			cur.Loops[n] = curLoop
		case "invariant":
			if curLoop == nil {
				return nil, fmt.Errorf("line %d: invariant outside loop", d.line)
			}
			c, err := parseClause(d)
			if err != nil {
				return nil, err
			}
			curLoop.Invariants = append(curLoop.Invariants, c)
		case "decreases":
			var es []Expr
			for _, part := range splitTop(d.text, ',') {
				e, err := parseExprString(part)
				if err != nil {
					return nil, fmt.Errorf("line %d: %v", d.line, err)
				}
				es = append(es, e)
			}
			if curLoop != nil {
				curLoop.Decreases = es
			} else if cur != nil {
				cur.Decreases = es
			}
		case "ghostresult":
			fs := strings.Fields(d.text)
			if cur == nil || len(fs) != 2 {
				return nil, fmt.Errorf("line %d: ghostresult NAME int|bool|mapint", d.line)
			}
			if cur.GhostRes == nil {
				cur.GhostRes = map[string]string{}
			}
			cur.GhostRes[fs[0]] = fs[1]
		case "ghostvar":
			// loop level: name := init step expr ; function level: name := init
			if curLoop == nil {
				if cur == nil {
					return nil, fmt.Errorf("line %d: ghostvar outside func", d.line)
				}
				i := strings.Index(d.text, ":=")
				if i < 0 {
					return nil, fmt.Errorf("line %d: bad ghostvar", d.line)
				}
				init, err := parseExprString(d.text[i+2:])
				if err != nil {
					return nil, fmt.Errorf("line %d: %v", d.line, err)
				}
				cur.GhostVars = append(cur.GhostVars, GhostVar{Name: strings.TrimSpace(d.text[:i]), Init: init})
				continue
			}
			i := strings.Index(d.text, ":=")
			j := strings.Index(d.text, " step ")
			if i < 0 || j < i {
				return nil, fmt.Errorf("line %d: bad ghostvar", d.line)
			}
			init, err := parseExprString(d.text[i+2 : j])
			if err != nil {
				return nil, fmt.Errorf("line %d: %v", d.line, err)
			}
			step, err := parseExprString(d.text[j+6:])
			if err != nil {
				return nil, fmt.Errorf("line %d: %v", d.line, err)
			}
			curLoop.GhostVars = append(curLoop.GhostVars, GhostVar{strings.TrimSpace(d.text[:i]), init, step})
		case "assert":
			// assert ANCHOR: [induction VAR ::] EXPR   — proved at the anchor (by strong induction on VAR >= 0 if given), then assumed
			if cur == nil {
				return nil, fmt.Errorf("line %d: assert outside func", d.line)
			}
			ci := strings.Index(d.text, ":")
			if ci < 0 {
				return nil, fmt.Errorf("line %d: bad assert", d.line)
			}
			g := GhostStmt{Anchor: strings.TrimSpace(d.text[:ci]), Text: d.text, Line: d.line, Kind: "assert"}
			rest := strings.TrimSpace(d.text[ci+1:])
			if strings.HasPrefix(rest, "induction ") {
				k := strings.Index(rest, "::")
				if k < 0 {
					return nil, fmt.Errorf("line %d: induction without ::", d.line)
				}
				g.Field = strings.TrimSpace(rest[len("induction "):k])
				rest = strings.TrimSpace(rest[k+2:])
			}
			e, err := parseExprString(rest)
			if err != nil {
				return nil, fmt.Errorf("line %d: %v", d.line, err)
			}
			g.V = e
			cur.Ghost = append(cur.Ghost, g)
		case "at":
			// at ANCHOR: [if COND :] TARGET := EXPR
			if cur == nil {
				return nil, fmt.Errorf("line %d: ghost statement outside func", d.line)
			}
			ci := strings.Index(d.text, ":")
			if ci < 0 {
				return nil, fmt.Errorf("line %d: bad ghost statement", d.line)
			}
			g := GhostStmt{Anchor: strings.TrimSpace(d.text[:ci]), Text: d.text, Line: d.line}
			rest := strings.TrimSpace(d.text[ci+1:])
			if strings.HasPrefix(rest, "if ") {
				k := strings.Index(rest, " then ")
				if k < 0 {
					return nil, fmt.Errorf("line %d: ghost 'if' without 'then'", d.line)
				}
				c, err := parseExprString(rest[3:k])
				if err != nil {
					return nil, fmt.Errorf("line %d: %v", d.line, err)
				}
				g.Cond = c
				rest = strings.TrimSpace(rest[k+6:])
			}
			ai := strings.Index(rest, ":=")
			if ai < 0 {
				return nil, fmt.Errorf("line %d: ghost statement without :=", d.line)
			}
			target := strings.TrimSpace(rest[:ai])
			v, err := parseExprString(rest[ai+2:])
			if err != nil {
				return nil, fmt.Errorf("line %d: %v", d.line, err)
			}
			g.V = v
			if strings.HasPrefix(target, "all ") {
				// all Owner.field := \x. expr
				on := strings.SplitN(strings.TrimSpace(target[4:]), ".", 2)
				g.Kind, g.Owner, g.Field = "bulk", on[0], on[1]
			} else {
				te, err := parseExprString(target)
				if err != nil {
					return nil, fmt.Errorf("line %d: %v", d.line, err)
				}
				if id, isId := te.(*EIdent); isId {
					g.Kind, g.Field = "var", id.Name
				} else if ix, isIx := te.(*EIndex); isIx {
					// X.f[k] := v   (one entry of a ghost map field)
					fe, ok := ix.X.(*EField)
					if !ok {
						return nil, fmt.Errorf("line %d: ghost map target must be X.field[k]", d.line)
					}
					g.Kind, g.X, g.Field, g.Idx = "mapelem", fe.X, fe.Name, ix.I
				} else {
					fe, ok := te.(*EField)
					if !ok {
						return nil, fmt.Errorf("line %d: ghost target must be a field or a ghost variable", d.line)
					}
					g.Kind, g.X, g.Field = "field", fe.X, fe.Name
				}
			}
			cur.Ghost = append(cur.Ghost, g)
		}
	}
	return sf, nil
}

func min(a, b int) int {
	if a < b {
		return a
	}
	return b
}
