package main

// Calls: by contract, by inlining, builtins, function values.

import (
	"fmt"
	"go/token"
	"go/types"
	"strings"

	"golang.org/x/tools/go/ssa"
)

const maxInlineDepth = 8

func (a *Activation) call(ins *ssa.Call, st *State, rc *string) Val {
	x := a.x
	com := ins.Common()
	var args []Val
	for _, ar := range com.Args {
		args = append(args, a.val(ar))
	}
	if com.IsInvoke() {
		return a.invoke(ins, args, st, rc)
	}
	if b, ok := com.Value.(*ssa.Builtin); ok {
		return a.builtin(ins, b, args, st, rc)
	}
	callee := staticCalleeOf(com)
	if callee == nil {
		// dynamic call of a function value
		f := a.val(com.Value)
		x.oblige(a.oname("safe-call-nil"), "", *rc, not(eq(f.S, "0")), ins.Pos(), nil, "call of nil function value")
		x.logAppend(st, f, args)
		r := x.applyFunc(f, args)
		r = x.nameVal(ins.Name(), r)
		if r.K != KTuple || len(r.Fs) > 0 {
			if inv := x.typeInv(r, st.alloc); inv != "true" {
				// results of callbacks that are references are not tracked; only integer ranges matter
				_ = inv
			}
		}
		a.logCall(st, f, args)
		return r
	}
	if _, ok := com.Value.(*ssa.MakeClosure); ok {
		unsup("call of closure")
	}
	if !inRepo(callee) {
		return a.external(ins, callee, args, st, rc)
	}
	g := callee
	subst := TSubst{}
	if callee.Origin() != nil {
		g = callee.Origin()
		tps := g.TypeParams()
		targs := callee.TypeArgs()
		for i := 0; i < tps.Len() && i < len(targs); i++ {
			subst[tps.At(i)] = a.typ(targs[i])
		}
	}
	for i, p := range g.Params {
		if i < len(args) && args[i].T != nil {
			unify(p.Type(), args[i].T, subst)
		}
	}
	spec := x.eng.specFor(g)
	if spec != nil && !spec.Inline {
		return a.callContract(ins, g, spec, args, subst, st, rc)
	}
	return a.inline(ins, g, spec, args, subst, st, rc)
}

// logCall is a hook for the callback call log (C14); the log is modelled as a ghost sequence in the state.
func (a *Activation) logCall(st *State, f Val, args []Val) {}

func (a *Activation) callOrdinal(name string) int {
	a.callOrd[name]++
	return a.callOrd[name]
}

func (a *Activation) callContract(ins *ssa.Call, g *ssa.Function, spec *FuncSpec, args []Val, subst TSubst, st *State, rc *string) Val {
	x := a.x
	c := x.ctx
	name := funcKey(g)
	ord := a.callOrdinal(name)
	site := fmt.Sprintf("%s#%d", name, ord)
	x.usedSpecs[fullKey(g)] = true
	c.Comment("call " + fullKey(g) + " by contract")
	pre := st.clone()
	env := &Env{x: x, st: pre, old: pre, vars: map[string]Val{}, pkg: funcPkg(g)}
	for i, p := range g.Params {
		env.vars[p.Name()] = args[i]
	}
	a.curSt = st
	progVars := a.varsAtUpto(ins.Block(), true, nil, ins)
	argLookup := func(n string) (Val, bool) {
		if strings.HasPrefix(n, "arg") {
			var k int
			if _, err := fmt.Sscanf(n, "arg%d", &k); err == nil && k >= 0 && k < len(args) && fmt.Sprintf("arg%d", k) == n {
				return args[k], true
			}
		}
		return progVars(n)
	}
	if a.depth == 0 {
		a.ghostAt("before "+site, st, *rc, nil, argLookup)
		pre = st.clone()
		env.st, env.old = pre, pre
	}
	for i, r := range spec.Requires {
		if r.Internal && funcPkg(g) != funcPkg(a.fn) {
			// internal precondition ("requires internal e"): it speaks about the callee package's private proof layer, which
			// this package cannot even name. It is an obligation at every call site inside the callee's package and an
			// UNCHECKED ASSUMPTION at this one; recorded so that the evidence lists it.
			x.externals["internal precondition of "+fullKey(g)+" not checked at call sites outside its package: "+r.Text] = true
			continue
		}
		label := r.Label
		if label == "" {
			label = fmt.Sprint(i + 1)
		}
		cs := env.conjuncts(r.E, 0)
		for k, cj := range cs {
			l := label
			if len(cs) > 1 {
				l = fmt.Sprintf("%s.%d", label, k+1)
			}
			x.oblige(a.oname("pre@call:"+site), l, *rc, cj.Term, ins.Pos(), nil, "precondition of "+fullKey(g)+": "+cj.Text).setAlts(cj.Alts)
		}
	}
	// termination of recursion (C17): a call of the function under verification must decrease its variant, which is bounded below
	if a.depth == 0 && fullKey(g) == fullKey(x.root) {
		if len(spec.Decreases) == 0 || len(x.entryVariant) != len(spec.Decreases) {
			x.oblige(a.oname("variant@call:"+site), "", *rc, "false", ins.Pos(), nil, "recursive call: the contract has no `decreases` clause")
		} else {
			// lexicographic order over the listed expressions
			var less []string
			eqSoFar := "true"
			for i, d := range spec.Decreases {
				cv := env.evalInt(d)
				less = append(less, and(eqSoFar, app("<", cv, x.entryVariant[i]), app("<=", "0", x.entryVariant[i])))
				eqSoFar = and(eqSoFar, eq(cv, x.entryVariant[i]))
			}
			x.oblige(a.oname("variant@call:"+site), "", *rc, or(less...), ins.Pos(), nil, "recursive call decreases the variant, which is bounded below (termination)")
		}
	}
	if spec.PanicsIff != nil {
		x.oblige(a.oname("pre@call:"+site), "no-panic", *rc, not(env.evalBool(spec.PanicsIff)), ins.Pos(), nil, "callee "+fullKey(g)+" does not panic")
	}
	fr := x.evalFrame(spec, env)
	ws := x.eng.writeSet(g)
	// the callee's frame must be inside the caller's frame
	if x.frame.has {
		if !fr.has {
			if len(ws.fields) > 0 || ws.elems || ws.maps {
				x.oblige(a.oname("frame:call:"+site), "", *rc, "false", ins.Pos(), nil, "callee "+fullKey(g)+" has no modifies clause")
			}
		} else {
			for key, conds := range fr.fields {
				for _, f := range conds {
					r := c.boundVar("r")
					goal := fmt.Sprintf("(forall ((%s Int)) %s)", r, implies(and(app("<", "0", r), app("<=", r, pre.alloc), f(r)), x.frame.allowsField(key, r, x.alloc0)))
					x.oblige(a.oname("frame:call:"+site), sanitize(key), *rc, goal, ins.Pos(), nil, "callee may modify "+key+" only inside the caller's modifies clause")
				}
			}
			for cell := range fr.cells {
				if nm, isCell := x.cellParams[cell]; isCell && !x.frame.cells[cell] {
					x.oblige(a.oname("frame:call:"+site), "cell", *rc, "false", ins.Pos(), nil, "callee may write through "+nm+"; the caller's modifies clause does not name deref("+nm+")")
				}
			}
			if fr.allElems && !x.frame.allElems {
				x.oblige(a.oname("frame:call:"+site), "elems", *rc, "false", ins.Pos(), nil, "callee may modify the elements of any slice (elems(*)); the caller's modifies clause does not allow that")
			}
			for _, ar := range fr.elems {
				x.oblige(a.oname("frame:call:"+site), "elems", *rc, x.frame.allowsElems(ar, x.alloc0), ins.Pos(), nil, "callee may modify slice elements only inside the caller's modifies clause")
			}
			for _, m := range fr.maps {
				x.oblige(a.oname("frame:call:"+site), "map", *rc, x.frame.allowsMap(m, x.alloc0), ins.Pos(), nil, "callee may modify a Go map only inside the caller's modifies clause")
			}
		}
	}
	var allocT map[string]bool
	{
		at := map[string]bool{}
		if x.eng.allocTypes(g, subst, 0, map[string]bool{}, at) {
			allocT = at
		}
	}
	x.havocT(st, pre, ws, fr, allocT)
	// caller-owned cells the callee may write through a pointer parameter
	if fr != nil {
		for cell := range fr.cells {
			if old, ok := st.locals[cell]; ok {
				st.locals[cell] = c.freshVal("cell_"+ins.Name(), old.T)
			}
		}
	}
	// results
	sig := g.Signature
	var rs []Val
	for i := 0; i < sig.Results().Len(); i++ {
		rt := subst.apply(sig.Results().At(i).Type())
		rv := c.freshVal(fmt.Sprintf("%s_r%d", ins.Name(), i), rt)
		c.Assume(x.typeInv(rv, st.alloc))
		rs = append(rs, rv)
	}
	post := &Env{x: x, st: st, old: pre, vars: map[string]Val{}, pkg: funcPkg(g)}
	for i, p := range g.Params {
		post.vars[p.Name()] = args[i]
	}
	for i, r := range rs {
		post.vars[fmt.Sprintf("result%d", i)] = r
		if i == 0 {
			post.vars["result"] = r
		}
		if n := sig.Results().At(i).Name(); n != "" && n != "_" {
			if _, clash := post.vars[n]; !clash {
				post.vars[n] = r
			}
		}
	}
	ghostRes := map[string]Val{}
	for name, ty := range spec.GhostRes {
		srt := map[string]string{"int": "Int", "bool": "Bool", "mapint": arrSort("Int", "Int")}[ty]
		if srt == "" {
			efail("ghostresult %s: unknown type %s", name, ty)
		}
		v := Val{K: KScalar, Srt: srt, S: c.Fresh("gr_"+name, srt)}
		if ty == "int" {
			v = intVal(v.S)
		} else if ty == "bool" {
			v = boolVal(v.S)
		}
		post.vars[name] = v
		ghostRes["res_"+name] = v
	}
	for i, en := range spec.Ensures {
		if en.Internal && funcPkg(g) != funcPkg(a.fn) {
			continue // internal clause: not exported to other packages
		}
		c.Comment("ensures of " + fullKey(g) + ": " + en.Text)
		c.AssumeTagged(fmt.Sprintf("%s:%s", site, clauseLabel(en.Label, i)), implies(*rc, post.evalBool(en.E)))
	}
	if a.depth == 0 {
		a.ghostAt("after "+site, st, *rc, nil, func(n string) (Val, bool) {
			if n == "callresult" && len(rs) > 0 {
				return rs[0], true
			}
			// callresult0, callresult1, ...: the components of a tuple result (some may be discarded by the caller)
			if strings.HasPrefix(n, "callresult") && len(n) == len("callresult")+1 {
				if k := int(n[len(n)-1] - '0'); k >= 0 && k < len(rs) {
					return rs[k], true
				}
			}
			if v, ok := ghostRes[n]; ok {
				return v, true
			}
			return argLookup(n)
		})
	}
	switch len(rs) {
	case 0:
		return Val{K: KTuple}
	case 1:
		return rs[0]
	}
	return Val{K: KTuple, T: sig.Results(), Fs: rs}
}

func (a *Activation) inline(ins *ssa.Call, g *ssa.Function, spec *FuncSpec, args []Val, subst TSubst, st *State, rc *string) Val {
	x := a.x
	c := x.ctx
	if a.depth >= maxInlineDepth {
		unsup("inlining depth exceeded at %s (add a contract)", fullKey(g))
	}
	for _, f := range append(a.stack, a.fn) {
		if f == g {
			unsup("recursive call of %s needs a contract", fullKey(g))
		}
	}
	x.inlined[fullKey(g)] = true
	name := funcKey(g)
	ord := a.callOrdinal(name)
	sub := x.newActivation(g, subst, a.depth+1, fmt.Sprintf("%sin:%s#%d:", a.prefix, name, ord))
	sub.stack = append(append([]*ssa.Function{}, a.stack...), a.fn)
	sub.spec = spec
	for i, p := range g.Params {
		sub.vals[p] = args[i]
		sub.params[p.Name()] = args[i]
	}
	sub.entrySt = st.clone()
	sub.run(*rc, st.clone())
	if len(sub.rets) == 0 {
		*rc = "false"
		return c.zeroTuple(subst, g.Signature)
	}
	conds := make([]string, len(sub.rets))
	sts := make([]*State, len(sub.rets))
	for i, r := range sub.rets {
		conds[i], sts[i] = r.cond, r.st
	}
	merged := x.mergeStates(conds, sts)
	*st = *merged
	*rc = c.Define("rc_ret", "Bool", or(conds...))
	nres := g.Signature.Results().Len()
	var rs []Val
	for k := 0; k < nres; k++ {
		v := sub.rets[len(sub.rets)-1].results[k]
		for i := len(sub.rets) - 2; i >= 0; i-- {
			v = c.iteVal(conds[i], sub.rets[i].results[k], v)
		}
		rs = append(rs, x.nameVal(ins.Name(), v))
	}
	switch nres {
	case 0:
		return Val{K: KTuple}
	case 1:
		return rs[0]
	}
	return Val{K: KTuple, T: g.Signature.Results(), Fs: rs}
}

func (c *Ctx) zeroTuple(subst TSubst, sig *types.Signature) Val {
	n := sig.Results().Len()
	if n == 0 {
		return Val{K: KTuple}
	}
	var fs []Val
	for i := 0; i < n; i++ {
		fs = append(fs, c.zero(subst.apply(sig.Results().At(i).Type())))
	}
	if n == 1 {
		return fs[0]
	}
	return Val{K: KTuple, Fs: fs}
}

func (a *Activation) invoke(ins *ssa.Call, args []Val, st *State, rc *string) Val {
	x := a.x
	c := x.ctx
	com := ins.Common()
	recv := a.val(com.Value)
	m := com.Method
	full := m.FullName()
	x.externals["interface method "+full] = true
	switch {
	case strings.HasSuffix(full, "Container).Values") || strings.HasSuffix(full, ".Values"):
		// containers.Container[T].Values(): assumed contract — returns a freshly allocated slice and modifies nothing
		t := a.typ(ins.Type())
		if _, ok := t.Underlying().(*types.Slice); ok {
			x.note("interface call " + full + ": assumed to return a fresh slice and to modify nothing (each implementation's Values() is verified to do so)")
			v := a.freshSlice(t, st, ins.Name())
			return v
		}
	case strings.HasSuffix(full, "error).Error"):
		c.DeclSort("Str")
		return scalar(a.typ(ins.Type()), c.Fresh("errstr", "Str"))
	}
	_ = recv
	unsup("interface method call %s", full)
	return Val{}
}

func (a *Activation) builtin(ins *ssa.Call, b *ssa.Builtin, args []Val, st *State, rc *string) Val {
	x := a.x
	c := x.ctx
	name := ins.Name()
	switch b.Name() {
	case "len":
		v := args[0]
		switch v.K {
		case KSlice:
			return intVal(v.Len)
		case KScalar:
			if _, ok := v.T.Underlying().(*types.Map); ok {
				return intVal(c.Define(name, "Int", x.mapLen(st, v.S)))
			}
			if isStringType(v.T) {
				c.DeclFun("str_len", []string{"Str"}, "Int")
				r := app("str_len", v.S)
				c.Assume(app(">=", r, "0"))
				return intVal(r)
			}
		case KArray:
			return intVal(fmt.Sprint(v.N))
		}
		unsup("len of %s", describe(v))
	case "cap":
		if args[0].K == KSlice {
			return intVal(args[0].Cap)
		}
		unsup("cap of %s", describe(args[0]))
	case "min", "max":
		r := args[0]
		for _, o := range args[1:] {
			op := "<="
			if b.Name() == "max" {
				op = ">="
			}
			r = scalar(r.T, ite(app(op, r.S, o.S), r.S, o.S))
		}
		return scalar(r.T, c.Define(name, "Int", r.S))
	case "append":
		return a.appendSlice(ins, args[0], args[1], st, rc)
	case "copy":
		dst, src := args[0], args[1]
		if dst.K != KSlice || src.K != KSlice {
			unsup("copy with non-slice arguments")
		}
		et := dst.T.Underlying().(*types.Slice).Elem()
		n := c.Define(name, "Int", ite(app("<=", dst.Len, src.Len), dst.Len, src.Len))
		a.frameElemsIf(dst.Arr, app(">", n, "0"), st, *rc, ins.Pos())
		srt := c.sortOf(et)
		old := x.elemsArr(st, srt)
		j := c.boundVar("j")
		row := c.Fresh("row", arrSort("Int", srt))
		c.Assume(fmt.Sprintf("(forall ((%s Int)) (! (= (select %s %s) %s) :pattern ((select %s %s))))", j, row, j,
			ite(and(app("<=", dst.Off, j), app("<", j, app("+", dst.Off, n))),
				sel(sel(old, src.Arr), app("+", src.Off, app("-", j, dst.Off))),
				sel(sel(old, dst.Arr), j)), row, j))
		st.elems[srt] = c.Define("E_"+srt, arrSort("Int", arrSort("Int", srt)), store(old, dst.Arr, row))
		return intVal(n)
	case "clear":
		v := args[0]
		if v.K == KSlice {
			et := v.T.Underlying().(*types.Slice).Elem()
			a.frameElemsIf(v.Arr, app(">", v.Len, "0"), st, *rc, ins.Pos())
			srt := c.sortOf(et)
			z := c.zero(et)
			old := x.elemsArr(st, srt)
			j := c.boundVar("j")
			row := c.Fresh("row", arrSort("Int", srt))
			c.Assume(fmt.Sprintf("(forall ((%s Int)) (! (= (select %s %s) %s) :pattern ((select %s %s))))", j, row, j,
				ite(and(app("<=", v.Off, j), app("<", j, app("+", v.Off, v.Len))), z.S, sel(sel(old, v.Arr), j)), row, j))
			st.elems[srt] = c.Define("E_"+srt, arrSort("Int", arrSort("Int", srt)), store(old, v.Arr, row))
			return Val{K: KTuple}
		}
		if mt, ok := v.T.Underlying().(*types.Map); ok {
			mk, ks, _ := x.mapSortsOf(mt)
			a.frameMapIf(v.S, not(eq(v.S, "0")), st, *rc, ins.Pos())
			d := x.mdomArr(st, mk)
			st.mdom[mk] = c.Define("MD", arrSort("Int", arrSort(ks, "Bool")), store(d, v.S, fmt.Sprintf("((as const %s) false)", arrSort(ks, "Bool"))))
			st.mlen = c.Define("ML", arrSort("Int", "Int"), store(x.mlenArr(st), v.S, "0"))
			return Val{K: KTuple}
		}
		unsup("clear of %s", describe(v))
	case "delete":
		m, k := args[0], args[1]
		mt := m.T.Underlying().(*types.Map)
		a.frameMapIf(m.S, not(eq(m.S, "0")), st, *rc, ins.Pos())
		x.mapDelete(st, mt, m.S, k)
		return Val{K: KTuple}
	case "print", "println":
		x.oblige(a.oname("silent"), "", *rc, "false", ins.Pos(), nil, "builtin print writes to standard error")
		return Val{K: KTuple}
	case "ssa:wrapnilchk":
		return args[0]
	}
	unsup("builtin %s", b.Name())
	return Val{}
}

func (a *Activation) frameElemsIf(arr, cond string, st *State, rc string, pos token.Pos) {
	x := a.x
	if !x.frame.has {
		return
	}
	x.oblige(a.oname("frame"), "elems", and(rc, cond), x.frame.allowsElems(arr, x.alloc0), pos, nil, "write to slice elements is inside the modifies clause")
}

func (a *Activation) frameMapIf(m, cond string, st *State, rc string, pos token.Pos) {
	x := a.x
	if !x.frame.has {
		return
	}
	x.oblige(a.oname("frame"), "map", and(rc, cond), x.frame.allowsMap(m, x.alloc0), pos, nil, "write to Go map is inside the modifies clause")
}

// appendSlice models append(s, t...): in place iff len(s)+len(t) <= cap(s), else a fresh array.
func (a *Activation) appendSlice(ins ssa.Value, s, t Val, st *State, rc *string) Val {
	x := a.x
	c := x.ctx
	name := ins.Name()
	if s.K != KSlice {
		unsup("append to %s", describe(s))
	}
	if t.K != KSlice {
		unsup("append of %s (string append is outside the subset)", describe(t))
	}
	et := s.T.Underlying().(*types.Slice).Elem()
	srt := c.sortOf(et)
	n := t.Len
	newLen := c.Define(name+"_len", "Int", app("+", s.Len, n))
	fits := c.Define(name+"_fits", "Bool", app("<=", newLen, s.Cap))
	// appending nothing to a nil slice yields nil; otherwise a non-fitting append allocates
	grow := c.Define(name+"_grow", "Bool", and(not(fits)))
	fresh := app("+", st.alloc, "1")
	arr := c.Define(name+"_arr", "Int", ite(grow, fresh, s.Arr))
	off := c.Define(name+"_off", "Int", ite(grow, "0", s.Off))
	newCap := c.Fresh(name+"_newcap", "Int")
	c.Assume(app(">=", newCap, newLen))
	cp := c.Define(name+"_cap", "Int", ite(grow, newCap, s.Cap))
	a.frameElemsIf(s.Arr, and(fits, app(">", n, "0")), st, *rc, ins.Pos())
	old := x.elemsArr(st, srt)
	z := c.zero(et)
	j := c.boundVar("j")
	row := c.Fresh("row", arrSort("Int", srt))
	srcIdx := func(rel string) string {
		return x.sidx(t, rel)
	}
	inNew := and(app("<=", app("+", off, s.Len), j), app("<", j, app("+", off, newLen)))
	inOld := and(app("<=", off, j), app("<", j, app("+", off, s.Len)))
	c.Assume(fmt.Sprintf("(forall ((%s Int)) (! (= (select %s %s) %s) :pattern ((select %s %s))))", j, row, j,
		ite(inNew, sel(sel(old, t.Arr), srcIdx(app("-", j, app("+", off, s.Len)))),
			ite(grow, ite(inOld, sel(sel(old, s.Arr), app("+", s.Off, app("-", j, off))), z.S), sel(sel(old, s.Arr), j))), row, j))
	st.elems[srt] = c.Define("E_"+srt, arrSort("Int", arrSort("Int", srt)), store(old, arr, row))
	st.alloc = c.Define("alloc", "Int", ite(grow, fresh, st.alloc))
	return Val{K: KSlice, T: s.T, Arr: arr, Off: off, Len: newLen, Cap: cp}
}

// ---------- range over maps ----------

// rangeOrd: ordinal (1-based, in block order) of a map-range statement within its function.
func (a *Activation) rangeOrd(r *ssa.Range) int {
	n := 0
	for _, b := range a.fn.Blocks {
		for _, ins := range b.Instrs {
			if rg, ok := ins.(*ssa.Range); ok {
				if _, isMap := rg.X.Type().Underlying().(*types.Map); isMap {
					n++
				}
				if rg == r {
					return n
				}
			}
		}
	}
	return 0
}

type rangeState struct {
	m       Val
	mt      *types.Map
	visited string // (Array K Bool)
	count   string
}

func (a *Activation) rangeInit(ins *ssa.Range, st *State) Val {
	x := a.x
	c := x.ctx
	m := a.val(ins.X)
	mt, ok := m.T.Underlying().(*types.Map)
	if !ok {
		unsup("range over %s", typeStr(m.T))
	}
	ks := c.sortOf(mt.Key())
	// ghost iteration state: visitedN (set of keys already yielded) and nvisitedN, N = ordinal of the range statement
	n := a.rangeOrd(ins)
	st.gvars[fmt.Sprintf("visited%d", n)] = Val{K: KScalar, T: mt.Key(), Srt: arrSort(ks, "Bool"), S: fmt.Sprintf("((as const %s) false)", arrSort(ks, "Bool")), N: -1}
	st.gvars[fmt.Sprintf("nvisited%d", n)] = intVal("0")
	return Val{K: KScalar, T: nil, Srt: "Int", S: m.S, Fs: []Val{m}}
}

func (a *Activation) rangeNext(ins *ssa.Next, st *State, rc *string) Val {
	x := a.x
	c := x.ctx
	if ins.IsString {
		unsup("range over string")
	}
	rng := ins.Iter.(*ssa.Range)
	it := a.val(rng)
	m := it.Fs[0]
	mt := m.T.Underlying().(*types.Map)
	mk, ks, _ := x.mapSortsOf(mt)
	ord := a.rangeOrd(rng)
	vis := st.gvars[fmt.Sprintf("visited%d", ord)]
	cnt := st.gvars[fmt.Sprintf("nvisited%d", ord)]
	if vis.S == "" {
		unsup("range state lost (range across loops without ghost state)")
	}
	dom := sel(x.mdomArr(st, mk), m.S)
	ok := c.Fresh(ins.Name()+"_ok", "Bool")
	k := c.Fresh(ins.Name()+"_k", ks)
	live := not(eq(m.S, "0"))
	// A-MAP: range yields each key present exactly once
	c.Assume(implies(*rc, implies(ok, and(live, sel(dom, k), not(sel(vis.S, k))))))
	kk := c.boundVar("k")
	c.Assume(implies(*rc, implies(not(ok), fmt.Sprintf("(forall ((%s %s)) (=> %s (select %s %s)))", kk, ks, and(live, sel(dom, kk)), vis.S, kk))))
	c.Assume(implies(*rc, and(app("<=", cnt.S, x.mapLen(st, m.S)), implies(not(ok), eq(cnt.S, x.mapLen(st, m.S))), implies(ok, app("<", cnt.S, x.mapLen(st, m.S))))))
	nvis := vis
	nvis.S = c.Define("visited", vis.Srt, ite(ok, store(vis.S, k, "true"), vis.S))
	st.gvars[fmt.Sprintf("visited%d", ord)] = nvis
	st.gvars[fmt.Sprintf("nvisited%d", ord)] = intVal(c.Define("count", "Int", ite(ok, app("+", cnt.S, "1"), cnt.S)))
	kv := scalar(mt.Key(), k)
	vv, _ := x.mapLookup(st, mt, m.S, kv)
	vv = x.nameVal(ins.Name()+"_v", vv)
	return Val{K: KTuple, Fs: []Val{boolVal(ok), kv, vv}}
}
