package main

// Symbolic execution of one function under contract: loop cutting, call-by-contract,
// obligation generation.

import (
	"fmt"
	"go/constant"
	"go/token"
	"go/types"
	"sort"
	"strings"

	"golang.org/x/tools/go/ssa"
)

type FrameSpec struct {
	has    bool
	fields map[string][]func(r string) string // field key -> allowed-ref conditions
	elems  []string
	// allElems ("modifies elems(*)"): the elements of any slice may change. A coarse frame for trusted contracts of functions
	// whose slice writes cannot be enumerated (the B-tree mutators write into the entry/child arrays of many nodes).
	allElems bool
	maps     []string
	texts    []string
	// cells: caller-owned scalar cells (a `*string` parameter and the like) that `modifies deref(p)` names
	cells map[*ssa.Alloc]bool
}

type Exec struct {
	entryVariant []string // values of the root function's `decreases` expressions at entry
	// cellParams: parameters of pointer-to-basic type (`str *string`) are modelled as caller-owned cells outside the heap;
	// the synthetic key stands for the cell in State.locals
	cellParams     map[*ssa.Alloc]string
	eng            *Engine
	ctx            *Ctx
	heap           *heapInfo
	root           *ssa.Function
	rootSpec       *FuncSpec
	rootName       string // pkg.Recv.Func
	alloc0         string
	elemClosedDone map[string]bool
	emitted        map[string]bool
	entry          *State
	frame          *FrameSpec
	depth          int
	strs           map[string]string
	counters       map[string]int
	notes          []string        // imprecision / assumption notes
	usedSpecs      map[string]bool // callee contracts used
	inlined        map[string]bool
	externals      map[string]bool
	anchorsHit     map[int]bool
	logInit        map[string]Val
	lateKeys       int
	prereg         []preregKey
	havocSeen      bool
}

type preregKey struct {
	kind   string // "field" "elem" "map"
	owner  *types.Named
	field  string
	comp   string
	sort   string
	elemT  types.Type
	ks, vs string
}

type retInfo struct {
	cond    string
	results []Val
	st      *State
}

type Activation struct {
	x       *Exec
	fn      *ssa.Function
	subst   TSubst
	vals    map[ssa.Value]Val
	spec    *FuncSpec
	depth   int
	prefix  string // obligation name prefix for inlined code
	loops   []*loopInfo
	byHead  map[*ssa.BasicBlock]*loopInfo
	params  map[string]Val
	rets    []retInfo
	entrySt *State
	rcOf    map[*ssa.BasicBlock]string
	callOrd map[string]int
	stack   []*ssa.Function
	curSt   *State
}

type edge struct {
	cond string
	st   *State
	from *ssa.BasicBlock
}

type unsupported struct{ msg string }

func (u unsupported) Error() string { return u.msg }

func unsup(format string, args ...interface{}) {
	panic(unsupported{fmt.Sprintf(format, args...)})
}

func (x *Exec) note(s string) {
	for _, n := range x.notes {
		if n == s {
			return
		}
	}
	x.notes = append(x.notes, s)
}

func (x *Exec) count(k string) int {
	x.counters[k]++
	return x.counters[k]
}

func (x *Exec) oblige(kind, label, guard, goal string, pos token.Pos, props []string, text string) *Obligation {
	name := x.rootName + ":" + kind
	if label != "" {
		name += ":" + label
	}
	if n := x.count(name); n > 1 {
		name = fmt.Sprintf("%s~%d", name, n)
	}
	o := &Obligation{Name: name, Func: x.rootName, Kind: kind, Guard: guard, Goal: goal, Pos: x.eng.posOf(pos), Props: props, Text: text}
	x.ctx.Oblige(o)
	if x.rootSpec != nil {
		o.Budget = x.rootSpec.Budget
		short := strings.TrimPrefix(name, x.rootName+":")
		for _, f := range x.rootSpec.Focus {
			if globMatch(f.Obl, short) {
				o.Focus = append(o.Focus, f.Keep...)
			}
		}
	}
	return o
}

func clauseLabel(label string, i int) string {
	if label != "" {
		return label
	}
	return fmt.Sprint(i + 1)
}

// ---------- strings, function application, arithmetic ----------

func (x *Exec) strLit(s string) string {
	if n, ok := x.strs[s]; ok {
		return n
	}
	x.ctx.DeclSort("Str")
	name := fmt.Sprintf("strlit_%d", len(x.strs))
	x.ctx.DeclFun(name, nil, "Str")
	x.ctx.Comment(fmt.Sprintf("%s = %q", name, s))
	x.strs[s] = name
	return name
}

func (x *Exec) strConcat(a, b string) string {
	x.ctx.DeclSort("Str")
	x.ctx.DeclFun("str_concat", []string{"Str", "Str"}, "Str")
	return app("str_concat", a, b)
}

// applyFunc: application of an opaque function value (comparator, callback): uninterpreted,
// total, deterministic, heap-independent (assumption A-FUNC).
func (x *Exec) applyFunc(f Val, args []Val) Val {
	if f.T == nil {
		efail("application of an untyped value")
	}
	sig, ok := f.T.Underlying().(*types.Signature)
	if !ok {
		efail("application of non-function %s", typeStr(f.T))
	}
	var asorts []string
	var aterms []string
	asorts = append(asorts, "Int")
	aterms = append(aterms, f.S)
	for _, a := range args {
		for _, c := range x.ctx.components(a) {
			asorts = append(asorts, c[0])
			aterms = append(aterms, c[1])
		}
	}
	res := sig.Results()
	switch res.Len() {
	case 0:
		return Val{K: KTuple}
	case 1:
		rt := res.At(0).Type()
		rs := x.ctx.sortOf(rt)
		name := "apply_" + sanitize(strings.Join(asorts[1:], "_")) + "_to_" + sanitize(rs)
		x.ctx.DeclFun(name, asorts, rs)
		return scalar(rt, app(name, aterms...))
	}
	v := Val{K: KTuple, T: res}
	for i := 0; i < res.Len(); i++ {
		rt := res.At(i).Type()
		rs := x.ctx.sortOf(rt)
		name := fmt.Sprintf("apply_%s_to%d_%s", sanitize(strings.Join(asorts[1:], "_")), i, sanitize(rs))
		x.ctx.DeclFun(name, asorts, rs)
		v.Fs = append(v.Fs, scalar(rt, app(name, aterms...)))
	}
	return v
}

func isNumeral(s string) (int64, bool) {
	var n int64
	if _, err := fmt.Sscanf(s, "%d", &n); err == nil && fmt.Sprint(n) == s {
		return n, true
	}
	return 0, false
}

// Go's truncated division.
func (x *Exec) goDiv(a, b string) string {
	if n, ok := isNumeral(b); ok && n > 0 {
		return ite(app(">=", a, "0"), app("div", a, b), app("-", app("div", app("-", a), b)))
	}
	return ite(app(">", b, "0"),
		ite(app(">=", a, "0"), app("div", a, b), app("-", app("div", app("-", a), b))),
		ite(app(">=", a, "0"), app("-", app("div", a, app("-", b))), app("div", app("-", a), app("-", b))))
}

func (x *Exec) goRem(a, b string) string {
	if n, ok := isNumeral(b); ok && n > 0 {
		return ite(app(">=", a, "0"), app("mod", a, b), app("-", app("mod", app("-", a), b)))
	}
	// Symbolic divisor: SMT `mod` would make the query nonlinear (solvers answer unknown). The remainder is an
	// uninterpreted function constrained by true facts about Go's % that suffice for ring arithmetic.
	c := x.ctx
	if _, ok := c.funs["gorem"]; !ok {
		c.DeclFun("gorem", []string{"Int", "Int"}, "Int")
		c.Assume("(forall ((a Int) (b Int)) (! (=> (and (> b 0) (>= a 0)) (and (<= 0 (gorem a b)) (< (gorem a b) b))) :pattern ((gorem a b))))")
		c.Assume("(forall ((a Int) (b Int)) (! (=> (and (> b 0) (<= a 0)) (and (< (- b) (gorem a b)) (<= (gorem a b) 0))) :pattern ((gorem a b))))")
		c.Assume("(forall ((a Int) (b Int)) (! (=> (and (> b 0) (<= 0 a) (< a b)) (= (gorem a b) a)) :pattern ((gorem a b))))")
		c.Assume("(forall ((a Int) (b Int)) (! (=> (and (> b 0) (<= b a) (< a (* 2 b))) (= (gorem a b) (- a b))) :pattern ((gorem a b))))")
	}
	return app("gorem", a, b)
}

// ---------- element heaps and maps ----------

// eidx: absolute position of element i of a slice with offset off. Arithmetic inside quantifier patterns is
// normalised away by the solvers, so the sum is wrapped in a function symbol with a defining axiom.
func (x *Exec) eidx(off, i string) string {
	if off == "0" {
		return i
	}
	if _, ok := isNumeral(off); ok {
		if _, ok2 := isNumeral(i); ok2 {
			return app("+", off, i)
		}
	}
	c := x.ctx
	if _, ok := c.funs["idx"]; !ok {
		c.DeclFun("idx", []string{"Int", "Int"}, "Int")
		c.Assume("(forall ((o Int) (i Int)) (! (= (idx o i) (+ o i)) :pattern ((idx o i))))")
	}
	return app("idx", off, i)
}

func (x *Exec) loadElem(st *State, et types.Type, arr, idx string) Val {
	et = types.Unalias(et)
	if !isScalarType(et) {
		unsup("slice of non-scalar element type %s", typeStr(et))
	}
	srt := x.ctx.sortOf(et)
	return scalar(et, sel(sel(x.elemsArr(st, srt), arr), idx))
}

func (x *Exec) storeElem(st *State, et types.Type, arr, idx string, v Val) {
	srt := x.ctx.sortOf(et)
	e := x.elemsArr(st, srt)
	st.elems[srt] = x.ctx.Define("E_"+srt, arrSort("Int", arrSort("Int", srt)), store(e, arr, store(sel(e, arr), idx, v.S)))
}

func (x *Exec) mapSortsOf(mt *types.Map) (string, string, string) {
	ks := x.ctx.sortOf(mt.Key())
	var vs string
	if isUnitType(mt.Elem()) && !isTypeParam(mt.Elem()) {
		x.ctx.DeclSort("Unit")
		vs = "Unit"
	} else if isScalarType(mt.Elem()) {
		vs = x.ctx.sortOf(mt.Elem())
	} else {
		unsup("map with non-scalar value type %s", typeStr(mt.Elem()))
	}
	return x.mapKey(ks, vs), ks, vs
}

func (x *Exec) mapLookup(st *State, mt *types.Map, m string, k Val) (Val, string) {
	mk, _, _ := x.mapSortsOf(mt)
	present := and(not(eq(m, "0")), sel(sel(x.mdomArr(st, mk), m), k.S))
	z := x.ctx.zero(mt.Elem())
	if z.K == KUnit {
		return z, present
	}
	v := scalar(mt.Elem(), ite(present, sel(sel(x.mvalArr(st, mk), m), k.S), z.S))
	return v, present
}

func (x *Exec) mapLen(st *State, m string) string {
	return ite(eq(m, "0"), "0", sel(x.mlenArr(st), m))
}

func (x *Exec) mapUpdate(st *State, mt *types.Map, m string, k, v Val) {
	mk, ks, vs := x.mapSortsOf(mt)
	d := x.mdomArr(st, mk)
	was := sel(sel(d, m), k.S)
	ml := x.mlenArr(st)
	st.mlen = x.ctx.Define("ML", arrSort("Int", "Int"), store(ml, m, app("+", sel(ml, m), ite(was, "0", "1"))))
	st.mdom[mk] = x.ctx.Define("MD", arrSort("Int", arrSort(ks, "Bool")), store(d, m, store(sel(d, m), k.S, "true")))
	if vs != "Unit" {
		va := x.mvalArr(st, mk)
		st.mval[mk] = x.ctx.Define("MV", arrSort("Int", arrSort(ks, vs)), store(va, m, store(sel(va, m), k.S, v.S)))
	}
}

func (x *Exec) mapDelete(st *State, mt *types.Map, m string, k Val) {
	mk, ks, _ := x.mapSortsOf(mt)
	d := x.mdomArr(st, mk)
	was := and(not(eq(m, "0")), sel(sel(d, m), k.S))
	ml := x.mlenArr(st)
	// deleting from a nil map is a no-op; ref 0 is never a live map so updating index 0 is harmless
	st.mlen = x.ctx.Define("ML", arrSort("Int", "Int"), store(ml, m, app("-", sel(ml, m), ite(was, "1", "0"))))
	st.mdom[mk] = x.ctx.Define("MD", arrSort("Int", arrSort(ks, "Bool")), store(d, m, store(sel(d, m), k.S, "false")))
}

// ---------- type invariants ----------

func (x *Exec) typeInv(v Val, alloc string) string {
	switch v.K {
	case KScalar:
		if v.T == nil {
			return "true"
		}
		if isTypeParam(v.T) {
			return "true"
		}
		switch u := v.T.Underlying().(type) {
		case *types.Pointer:
			sz := objSize(u.Elem())
			return and(app("<=", "0", v.S), app("<=", add(v.S, sz-1), alloc))
		case *types.Map:
			return and(app("<=", "0", v.S), app("<=", v.S, alloc))
		case *types.Basic:
			if u.Info()&types.IsInteger != 0 {
				lo, hi, ok := intRange(u)
				if ok {
					return and(app("<=", lo, v.S), app("<=", v.S, hi))
				}
			}
		}
		return "true"
	case KSlice:
		// A-RES: no slice is longer than 2^40 elements
		return and(app("<=", "0", v.Arr), app("<=", v.Arr, alloc), app("<=", "0", v.Off), app("<=", "0", v.Len), app("<=", v.Len, v.Cap),
			app("<=", v.Cap, "1099511627776"), implies(eq(v.Arr, "0"), and(eq(v.Cap, "0"), eq(v.Off, "0"))))
	case KStruct, KTuple:
		var cs []string
		for _, f := range v.Fs {
			cs = append(cs, x.typeInv(f, alloc))
		}
		return and(cs...)
	}
	return "true"
}

func intRange(b *types.Basic) (string, string, bool) {
	switch b.Kind() {
	case types.Int8:
		return "(- 128)", "127", true
	case types.Int16:
		return "(- 32768)", "32767", true
	case types.Int32:
		return "(- 2147483648)", "2147483647", true
	case types.Uint8:
		return "0", "255", true
	case types.Uint16:
		return "0", "65535", true
	case types.Uint32:
		return "0", "4294967295", true
	case types.Uint, types.Uint64, types.Uintptr:
		return "0", "18446744073709551615", true
	case types.Int, types.Int64:
		return "(- 9223372036854775808)", "9223372036854775807", true
	}
	return "", "", false
}

// ---------- verification of a root function ----------

func (e *Engine) VerifyFunction(fn *ssa.Function) (ctx *Ctx, x *Exec, err error) {
	spec := e.specFor(fn)
	var prereg []preregKey
	for pass := 0; pass < 3; pass++ {
		x = &Exec{eng: e, ctx: NewCtx(fullKey(fn)), heap: newHeapInfo(), root: fn, rootSpec: spec, rootName: fullKey(fn),
			emitted: map[string]bool{}, strs: map[string]string{}, counters: map[string]int{}, anchorsHit: map[int]bool{}, logInit: map[string]Val{}, usedSpecs: map[string]bool{}, inlined: map[string]bool{}, externals: map[string]bool{}}
		err = x.runRoot(prereg)
		if err != nil {
			return x.ctx, x, err
		}
		if x.lateKeys == 0 && pass > 0 {
			break
		}
		prereg = x.prereg
	}
	return x.ctx, x, nil
}

func (x *Exec) recordKey(k preregKey) {
	x.prereg = append(x.prereg, k)
	if x.havocSeen {
		x.lateKeys++
	}
}

func (x *Exec) runRoot(prereg []preregKey) (err error) {
	defer func() {
		if r := recover(); r != nil {
			switch r := r.(type) {
			case unsupported:
				err = fmt.Errorf("outside subset: %s", r.msg)
			case evalError:
				err = fmt.Errorf("contract error: %s", r.msg)
			default:
				panic(r)
			}
		}
	}()
	fn := x.root
	c := x.ctx
	x.alloc0 = c.Fresh("alloc0", "Int")
	c.Assume(app(">=", x.alloc0, "0"))
	ncall0 := c.Fresh("ncall0", "Int")
	st := &State{fields: map[string]string{}, elems: map[string]string{}, mdom: map[string]string{}, mval: map[string]string{}, locals: map[*ssa.Alloc]Val{}, gvars: map[string]Val{}, alloc: x.alloc0, ncall: ncall0}
	for _, k := range prereg {
		switch k.kind {
		case "field":
			x.registerField(k.owner, k.field, k.comp, k.sort, k.elemT)
		case "elem":
			x.elemsArr(st, k.sort)
		case "map":
			x.mapKey(k.ks, k.vs)
		}
	}
	x.lateKeys = 0
	x.havocSeen = false
	a := x.newActivation(fn, nil, 0, "")
	a.spec = x.rootSpec
	// parameters
	for _, p := range fn.Params {
		if sl, ok := x.slotParam(p); ok {
			a.vals[p] = sl
			a.params[p.Name()] = sl
			continue
		}
		if fl, ok := x.fieldPtrParam(fn, p); ok {
			a.vals[p] = fl
			a.params[p.Name()] = fl
			continue
		}
		if pt, ok := types.Unalias(p.Type()).(*types.Pointer); ok {
			if bt, isB := types.Unalias(pt.Elem()).Underlying().(*types.Basic); isB && !isTypeParam(pt.Elem()) && bt.Kind() != types.UnsafePointer {
				// a cell owned by the caller (the library passes the address of a local string to its recursive printers)
				cell := &ssa.Alloc{}
				if x.cellParams == nil {
					x.cellParams = map[*ssa.Alloc]string{}
				}
				x.cellParams[cell] = p.Name()
				st.locals[cell] = c.freshVal("p_"+p.Name()+".cell", pt.Elem())
				v := Val{K: KLoc, T: p.Type(), Loc: &Loc{K: LLocal, Local: cell, T: pt.Elem()}}
				a.vals[p] = v
				a.params[p.Name()] = v
				continue
			}
		}
		v := c.freshVal("p_"+p.Name(), p.Type())
		c.Assume(x.typeInv(v, x.alloc0))
		a.vals[p] = v
		a.params[p.Name()] = v
	}
	x.entry = st.clone()
	a.entrySt = x.entry
	env := a.env(st, x.entry)
	x.frame = &FrameSpec{fields: map[string][]func(string) string{}}
	if x.rootSpec != nil {
		for i, r := range x.rootSpec.Requires {
			c.Comment("requires " + r.Text)
			c.AssumeTagged(fmt.Sprintf("pre:%s", clauseLabel(r.Label, i)), env.evalBool(r.E))
		}
		x.frame = x.evalFrame(x.rootSpec, env)
		// the function-level variant (`decreases e`) at entry: recursive calls must make it smaller (termination, C17)
		x.entryVariant = nil
		for _, d := range x.rootSpec.Decreases {
			x.entryVariant = append(x.entryVariant, c.Define("fvariant", "Int", env.evalInt(d)))
		}
		// cover:pre — the precondition is satisfiable (vacuity guard); checked as a must-be-sat query
		o := x.oblige("cover", "pre", "true", "false", fn.Pos(), nil, "precondition is satisfiable")
		o.Expected = "sat"
	}
	if x.rootSpec != nil {
		for _, g := range x.rootSpec.GhostVars {
			st.gvars[g.Name] = x.nameVal("g_"+g.Name, env.eval(g.Init))
		}
	}
	a.ghostAt("entry", st, "true", nil, nil)
	a.run("true", st)
	if x.rootSpec != nil {
		for gi, g := range x.rootSpec.Ghost {
			if !x.anchorsHit[gi] {
				efail("ghost statement anchor %q matches no point of %s", g.Anchor, x.rootName)
			}
		}
	}
	return nil
}

func (x *Exec) newActivation(fn *ssa.Function, subst TSubst, depth int, prefix string) *Activation {
	a := &Activation{x: x, fn: fn, subst: subst, vals: map[ssa.Value]Val{}, depth: depth, prefix: prefix, params: map[string]Val{},
		byHead: map[*ssa.BasicBlock]*loopInfo{}, rcOf: map[*ssa.BasicBlock]string{}, callOrd: map[string]int{}}
	a.loops = findLoops(fn)
	for _, l := range a.loops {
		a.byHead[l.header] = l
	}
	return a
}

func (a *Activation) typ(t types.Type) types.Type { return a.subst.apply(t) }

// env builds a contract-evaluation environment at the current point.
func (a *Activation) env(st *State, old *State) *Env {
	pkg := funcPkg(a.fn)
	e := &Env{x: a.x, st: st, old: old, vars: map[string]Val{}, pkg: pkg}
	for k, v := range a.params {
		e.vars[k] = v
		e.vars[k+"0"] = v // entry value of a (possibly reassigned) parameter
	}
	for k, v := range st.gvars {
		e.vars[k] = v
	}
	return e
}

func (x *Exec) evalFrame(spec *FuncSpec, env *Env) *FrameSpec {
	fr := &FrameSpec{fields: map[string][]func(string) string{}}
	// local ghost fields of another package are invisible here (see GhostField.Local)
	hidden := func(n *types.Named, f string) bool {
		g := x.ghostField(n, f)
		return g != nil && g.Local && g.Pkg != funcPkg(x.root)
	}
	if !spec.HasMod {
		return fr
	}
	fr.has = true
	for _, m := range spec.Modifies {
		fr.texts = append(fr.texts, m.Text)
		switch m.Kind {
		case "nothing":
		case "field":
			obj := env.eval(m.X)
			n := namedStruct(obj.T)
			if n == nil {
				efail("modifies %s: not a struct pointer", m.Text)
			}
			if hidden(n, m.Field) {
				continue
			}
			for _, kr := range x.fieldKeys(n, m.Field) {
				ref := add(obj.S, kr.off)
				fr.fields[kr.key] = append(fr.fields[kr.key], func(r string) string { return eq(r, ref) })
			}
		case "deref":
			v := env.eval(m.X)
			if v.K != KLoc {
				efail("modifies %s: not an address", m.Text)
			}
			l := v.Loc
			addF := func(owner *types.Named, fidx int, ref, cond string) {
				f := owner.Underlying().(*types.Struct).Field(fidx)
				for _, kr := range x.fieldKeys(owner, f.Name()) {
					rr := add(ref, kr.off)
					fr.fields[kr.key] = append(fr.fields[kr.key], func(r string) string { return and(cond, eq(r, rr)) })
				}
			}
			switch l.K {
			case LField:
				addF(l.Owner, l.Path[0], l.Ref, "true")
			case LFieldElem:
				addF(l.Owner, l.Path[0], l.Ref, "true")
			case LSlot:
				addF(l.TreeOwner, l.RootPath, l.Ref, l.IsRoot)
				addF(l.Owner, l.Path[0], l.NodeRef, not(l.IsRoot))
			case LLocal:
				if fr.cells == nil {
					fr.cells = map[*ssa.Alloc]bool{}
				}
				fr.cells[l.Local] = true
			default:
				efail("modifies %s: unsupported address", m.Text)
			}
		case "allelems":
			fr.allElems = true
		case "elems":
			v := env.eval(m.X)
			if v.K != KSlice {
				efail("modifies elems(%s): not a slice", m.Text)
			}
			fr.elems = append(fr.elems, v.Arr)
		case "map":
			v := env.eval(m.X)
			fr.maps = append(fr.maps, v.S)
		case "each":
			lv := env.eval(m.Var.Like)
			n := namedStruct(lv.T)
			if n == nil {
				efail("modifies each: 'like' is not a struct pointer")
			}
			mm := m
			for _, f := range m.Fields {
				if hidden(n, f) {
					continue
				}
				for _, kr := range x.fieldKeys(n, f) {
					off := kr.off
					fr.fields[kr.key] = append(fr.fields[kr.key], func(r string) string {
						ch := env.child()
						ch.vars[mm.Var.Name] = scalar(lv.T, add(r, -off))
						return ch.evalBool(mm.Where)
					})
				}
			}
		}
	}
	return fr
}

type keyRef struct {
	key string
	off int
}

// fieldKeys lists the heap arrays behind field `name` of struct n (slice components, sub-objects, ghost fields).
func (x *Exec) fieldKeys(n *types.Named, name string) []keyRef {
	i := fieldIndex(n, name)
	if i < 0 {
		if g := x.ghostField(n, name); g != nil {
			key, _, _ := x.ghostKey(n, g)
			return []keyRef{{key, 0}}
		}
		efail("no field %s in %s", name, typeStr(n))
	}
	ft := types.Unalias(structFieldType(n, i))
	if !isTypeParam(ft) {
		switch u := ft.Underlying().(type) {
		case *types.Slice:
			var out []keyRef
			for _, c := range []string{"arr", "off", "len", "cap"} {
				out = append(out, keyRef{x.registerField(n, name, c, "Int", nil), 0})
			}
			return out
		case *types.Struct:
			if u.NumFields() == 0 {
				return nil
			}
			sub := ft.(*types.Named)
			var out []keyRef
			base := subOffset(n, i)
			for j := 0; j < u.NumFields(); j++ {
				for _, kr := range x.fieldKeys(sub, u.Field(j).Name()) {
					out = append(out, keyRef{kr.key, kr.off + base})
				}
			}
			return out
		}
	}
	return []keyRef{{x.registerField(n, name, "", x.ctx.sortOf(ft), ft), 0}}
}

func (fr *FrameSpec) allowsField(key, ref, alloc0 string) string {
	var cs []string
	cs = append(cs, app(">", ref, alloc0))
	for _, f := range fr.fields[key] {
		cs = append(cs, f(ref))
	}
	return or(cs...)
}

func (fr *FrameSpec) allowsElems(arr, alloc0 string) string {
	// the nil slice (array ref 0) has no storage: "writing its elements" is vacuous
	if fr.allElems {
		return "true"
	}
	cs := []string{app(">", arr, alloc0), eq(arr, "0")}
	for _, a := range fr.elems {
		cs = append(cs, eq(arr, a))
	}
	return or(cs...)
}

func (fr *FrameSpec) allowsMap(m, alloc0 string) string {
	cs := []string{app(">", m, alloc0)}
	for _, a := range fr.maps {
		cs = append(cs, eq(m, a))
	}
	return or(cs...)
}

// ---------- running a body ----------

func (a *Activation) oname(kind string) string {
	return a.prefix + kind
}

func (a *Activation) run(entryCond string, st0 *State) {
	x := a.x
	fn := a.fn
	if len(fn.Blocks) == 0 {
		unsup("function %s has no body", fn.Name())
	}
	incoming := map[*ssa.BasicBlock][]edge{}
	order := topoOrder(fn)
	for _, b := range order {
		var rc string
		var st *State
		var ins []edge
		if b == fn.Blocks[0] {
			rc, st = entryCond, st0
		} else {
			ins = incoming[b]
			if len(ins) == 0 {
				continue // unreachable
			}
			conds := make([]string, len(ins))
			sts := make([]*State, len(ins))
			for i, e := range ins {
				conds[i], sts[i] = e.cond, e.st
			}
			rc = x.ctx.Define("rc_"+fmt.Sprint(b.Index), "Bool", or(conds...))
			st = x.mergeStates(conds, sts)
		}
		// phis
		for _, ins0 := range b.Instrs {
			phi, ok := ins0.(*ssa.Phi)
			if !ok {
				break
			}
			var v Val
			have := false
			for i := len(ins) - 1; i >= 0; i-- {
				// operand for predecessor ins[i].from
				idx := -1
				for pi, p := range b.Preds {
					if p == ins[i].from {
						idx = pi
					}
				}
				ov := a.val(phi.Edges[idx])
				if !have {
					v, have = ov, true
				} else {
					v = x.ctx.iteVal(ins[i].cond, ov, v)
				}
			}
			if !have {
				unsup("phi without forward predecessor")
			}
			a.vals[phi] = x.nameVal(phi.Name(), v)
		}
		if li := a.byHead[b]; li != nil {
			st, rc = a.loopHead(li, st, rc)
		}
		a.rcOf[b] = rc
		// instructions
		for _, ins0 := range b.Instrs {
			if _, ok := ins0.(*ssa.Phi); ok {
				continue
			}
			rc = a.exec(ins0, st, rc, func(to *ssa.BasicBlock, cond string) {
				// edge out of b
				if to.Dominates(b) {
					a.backEdge(a.byHead[to], b, st, cond)
					return
				}
				incoming[to] = append(incoming[to], edge{cond, st.clone(), b})
			})
		}
	}
}

// exec executes one instruction; returns the (possibly strengthened) reach condition.
func (a *Activation) exec(ins ssa.Instruction, st *State, rc string, goEdge func(*ssa.BasicBlock, string)) string {
	x := a.x
	c := x.ctx
	b := ins.Block()
	switch ins := ins.(type) {
	case *ssa.DebugRef:
		return rc
	case *ssa.If:
		cond := a.val(ins.Cond).S
		cn := c.Define("br", "Bool", cond)
		goEdge(b.Succs[0], c.Define("e", "Bool", and(rc, cn)))
		goEdge(b.Succs[1], c.Define("e", "Bool", and(rc, not(cn))))
	case *ssa.Jump:
		goEdge(b.Succs[0], rc)
	case *ssa.Return:
		var rs []Val
		for _, r := range ins.Results {
			rs = append(rs, a.val(r))
		}
		a.doReturn(ins, rs, st, rc)
	case *ssa.Panic:
		a.doPanic(ins, st, rc)
	case *ssa.Store:
		a.store(ins, a.val(ins.Addr), a.val(ins.Val), st, rc, ins.Pos())
	case *ssa.MapUpdate:
		m := a.val(ins.Map)
		mt := m.T.Underlying().(*types.Map)
		x.oblige(a.oname("safe-mapnil"), "", rc, not(eq(m.S, "0")), ins.Pos(), nil, "assignment to entry in nil map")
		a.frameMap(m.S, st, rc, ins.Pos())
		x.mapUpdate(st, mt, m.S, a.val(ins.Key), a.val(ins.Value))
	case *ssa.RunDefers, *ssa.Defer, *ssa.Go, *ssa.Send, *ssa.Select:
		unsup("%T is outside the verified subset", ins)
	case ssa.Value:
		v := a.value(ins, st, &rc)
		a.vals[ins] = v
	default:
		unsup("instruction %T", ins)
	}
	return rc
}

func (a *Activation) doPanic(ins *ssa.Panic, st *State, rc string) {
	x := a.x
	if a.depth == 0 && a.spec != nil && a.spec.PanicsIff != nil {
		env := a.env(a.entrySt, a.entrySt)
		cond := env.evalBool(a.spec.PanicsIff)
		x.oblige(a.oname("panics-only-if"), "", rc, cond, ins.Pos(), nil, "explicit panic only under the documented condition")
		return
	}
	x.oblige(a.oname("no-panic"), "", rc, "false", ins.Pos(), nil, "explicit panic is unreachable")
}

func (a *Activation) doReturn(ins *ssa.Return, rs []Val, st *State, rc string) {
	x := a.x
	if a.depth > 0 {
		a.rets = append(a.rets, retInfo{rc, rs, st.clone()})
		return
	}
	st = st.clone()
	a.curSt = st
	a.ghostAt("exit", st, rc, rs, a.varsAtUpto(ins.Block(), true, nil, ins))
	spec := a.spec
	if spec == nil {
		return
	}
	// cover:exit — this return is reachable under all assumptions made on the way (vacuity guard)
	co := x.oblige("cover", "exit", "true", not(rc), ins.Pos(), nil, "return is reachable (assumptions are consistent)")
	co.Expected = "sat"
	env := a.postEnv(st, rs)
	if spec.PanicsIff != nil {
		penv := a.env(a.entrySt, a.entrySt)
		x.oblige("panics-if", "", rc, not(penv.evalBool(spec.PanicsIff)), ins.Pos(), nil, "returns normally only when the panic condition is false")
	}
	for i, en := range spec.Ensures {
		label := en.Label
		if label == "" {
			label = fmt.Sprint(i + 1)
		}
		cs := env.conjuncts(en.E, 0)
		for k, cj := range cs {
			l := label
			if len(cs) > 1 {
				l = fmt.Sprintf("%s.%d", label, k+1)
			}
			x.oblige("post", l, rc, cj.Term, ins.Pos(), en.Tags, cj.Text).setAlts(cj.Alts)
		}
	}
}

func (a *Activation) postEnv(st *State, rs []Val) *Env {
	env := a.env(st, a.entrySt)
	sig := a.fn.Signature
	for i, r := range rs {
		env.vars[fmt.Sprintf("result%d", i)] = r
		if i == 0 {
			env.vars["result"] = r
		}
		if n := sig.Results().At(i).Name(); n != "" && n != "_" {
			if _, isParam := a.params[n]; !isParam {
				env.vars[n] = r
			}
		}
	}
	return env
}

// ---------- values ----------

func (a *Activation) val(v ssa.Value) Val {
	x := a.x
	c := x.ctx
	switch v := v.(type) {
	case *ssa.Const:
		t := a.typ(v.Type())
		if v.Value == nil {
			return c.zero(t)
		}
		switch v.Value.Kind() {
		case constant.Bool:
			if constant.BoolVal(v.Value) {
				return scalar(t, "true")
			}
			return scalar(t, "false")
		case constant.Int:
			if isFloatType(t) {
				return scalar(t, x.fltLit(v.Value.ExactString()))
			}
			n, ok := constant.Int64Val(v.Value)
			if !ok {
				s := v.Value.ExactString()
				if strings.HasPrefix(s, "-") {
					return scalar(t, "(- "+s[1:]+")")
				}
				return scalar(t, s)
			}
			return scalar(t, num(n))
		case constant.String:
			return scalar(t, x.strLit(constant.StringVal(v.Value)))
		case constant.Float:
			return scalar(t, x.fltLit(v.Value.ExactString()))
		}
		unsup("constant %s", v.String())
	case *ssa.Function:
		ref := x.funcRef(v)
		if extName(v) == "cmp.Compare" {
			// A-STD: cmp.Compare is a strict weak order on (non-NaN) ordered types
			t := a.typ(v.Type())
			if sig, ok := t.Underlying().(*types.Signature); ok && sig.Params().Len() == 2 {
				ks := c.sortOf(sig.Params().At(0).Type())
				key := "swo_axiom_" + ref + "_" + ks
				if _, done := c.funs[key]; !done {
					c.funs[key] = "axiom"
					fv := scalar(t, ref)
					xa, ya, za := c.boundVar("x"), c.boundVar("y"), c.boundVar("z")
					kt := sig.Params().At(0).Type()
					cxy := x.applyFunc(fv, []Val{scalar(kt, xa), scalar(kt, ya)}).S
					cyx := x.applyFunc(fv, []Val{scalar(kt, ya), scalar(kt, xa)}).S
					cyz := x.applyFunc(fv, []Val{scalar(kt, ya), scalar(kt, za)}).S
					cxz := x.applyFunc(fv, []Val{scalar(kt, xa), scalar(kt, za)}).S
					c.Assume(fmt.Sprintf("(forall ((%s %s) (%s %s)) (= (< %s 0) (> %s 0)))", xa, ks, ya, ks, cxy, cyx))
					c.Assume(fmt.Sprintf("(forall ((%s %s) (%s %s) (%s %s)) (=> (and (<= %s 0) (<= %s 0)) (<= %s 0)))", xa, ks, ya, ks, za, ks, cxy, cyz, cxz))
					x.note("A-STD: cmp.Compare is assumed to be a strict weak order (no NaN keys)")
				}
			}
		}
		return scalar(a.typ(v.Type()), ref)
	case *ssa.Global:
		// package-level variables are treated as immutable unknown constants (no function under contract assigns one)
		t := a.typ(v.Type()).Underlying().(*types.Pointer).Elem()
		return Val{K: KLoc, T: a.typ(v.Type()), Loc: &Loc{K: LGlobal, Name: v.RelString(nil), T: t}}
	case *ssa.FreeVar:
		unsup("closure free variable %s", v.Name())
	case *ssa.Builtin:
		unsup("builtin %s used as value", v.Name())
	}
	if r, ok := a.vals[v]; ok {
		return r
	}
	unsup("value %s (%T) used before definition", v.Name(), v)
	return Val{}
}

func isFloatType(t types.Type) bool {
	b, ok := t.Underlying().(*types.Basic)
	return ok && b.Info()&types.IsFloat != 0
}

// Floating point (A-FLOAT): float32/float64 values are modelled as reals; every operation returns the exact real
// result up to the IEEE round-to-nearest relative error (2^-24, the float32 bound; no overflow, no subnormals),
// int(f) is exact truncation for |f| < 2^63. Only linear operations (one operand a literal) are constrained.
const fltEps = "(/ 1.0 16777216.0)"

func (x *Exec) fltLit(s string) string {
	// s is go/constant's exact string: "2", "1/4", "-3/2"
	neg := strings.HasPrefix(s, "-")
	s = strings.TrimPrefix(s, "-")
	numS, denS := s, "1"
	if i := strings.Index(s, "/"); i >= 0 {
		numS, denS = s[:i], s[i+1:]
	}
	t := fmt.Sprintf("(/ %s.0 %s.0)", numS, denS)
	if neg {
		t = "(- " + t + ")"
	}
	// exactly representable when the denominator is a power of two and the numerator is below 2^24
	var num, den int64
	exact := false
	if _, err := fmt.Sscan(numS, &num); err == nil {
		if _, err := fmt.Sscan(denS, &den); err == nil && den > 0 && den&(den-1) == 0 && num < 1<<24 {
			exact = true
		}
	}
	if exact {
		return t
	}
	return x.fltRound(t)
}

func isFltLiteral(t string) bool {
	return strings.HasPrefix(t, "(/ ") || strings.HasPrefix(t, "(- (/ ")
}

// fltRound returns a fresh real within the relative rounding error of the exact term p.
func (x *Exec) fltRound(p string) string {
	c := x.ctx
	x.note("A-FLOAT: floating point modelled as reals with relative rounding error <= 2^-24 per operation")
	pn := c.Define("fexact", "Real", p)
	f := c.Fresh("flt", "Real")
	lo := fmt.Sprintf("(* %s (- 1.0 %s))", pn, fltEps)
	hi := fmt.Sprintf("(* %s (+ 1.0 %s))", pn, fltEps)
	c.Assume(ite(app(">=", pn, "0.0"), and(app("<=", lo, f), app("<=", f, hi)), and(app("<=", hi, f), app("<=", f, lo))))
	return f
}

func (x *Exec) fltToInt(r string) string {
	c := x.ctx
	x.note("A-FLOAT: floating point modelled as reals with relative rounding error <= 2^-24 per operation")
	i := c.Fresh("ftoi", "Int")
	ir := app("to_real", i)
	inRange := and(app("<", "(- 9223372036854775808.0)", r), app("<", r, "9223372036854775808.0"))
	c.Assume(implies(inRange, ite(app(">=", r, "0.0"), and(app("<=", ir, r), app("<", r, app("+", ir, "1.0"))), and(app("<", app("-", ir, "1.0"), r), app("<=", r, ir)))))
	return i
}

func (x *Exec) funcRef(fn *ssa.Function) string {
	name := "fn_" + sanitize(fn.RelString(nil))
	if _, ok := x.ctx.funs[name]; !ok {
		x.ctx.DeclFun(name, nil, "Int")
		x.ctx.Assume(app("<", name, "0")) // function values are non-nil and distinct from heap refs
	}
	return name
}

func (a *Activation) value(ins ssa.Value, st *State, rc *string) Val {
	x := a.x
	c := x.ctx
	name := ins.Name()
	switch ins := ins.(type) {
	case *ssa.Alloc:
		return a.alloc(ins, st)
	case *ssa.FieldAddr:
		base := a.val(ins.X)
		pt := a.typ(ins.X.Type()).Underlying().(*types.Pointer).Elem()
		n, _ := types.Unalias(pt).(*types.Named)
		if n == nil {
			unsup("field address in anonymous struct")
		}
		x.oblige(a.oname("safe-nil"), "", *rc, not(eq(base.S, "0")), ins.Pos(), nil, "nil pointer dereference (field address)")
		ft := structFieldType(n, ins.Field)
		if isEmbeddedStructField(ft) {
			return scalar(types.NewPointer(ft), c.Define(name, "Int", add(base.S, subOffset(n, ins.Field))))
		}
		return Val{K: KLoc, T: types.NewPointer(ft), Loc: &Loc{K: LField, Ref: base.S, Owner: n, Path: []int{ins.Field}, T: ft}}
	case *ssa.Field:
		base := a.val(ins.X)
		if base.K != KStruct {
			unsup("field of non-struct value")
		}
		return base.Fs[ins.Field]
	case *ssa.IndexAddr:
		base := a.val(ins.X)
		idx := a.val(ins.Index).S
		switch base.K {
		case KSlice:
			et := base.T.Underlying().(*types.Slice).Elem()
			x.oblige(a.oname("safe-index"), "", *rc, and(app("<=", "0", idx), app("<", idx, base.Len)), ins.Pos(), nil, "index out of range")
			return Val{K: KLoc, T: types.NewPointer(et), Loc: &Loc{K: LElem, Arr: base.Arr, Idx: c.Define(name, "Int", x.eidx(base.Off, idx)), T: et}}
		case KArrPtr:
			et := base.T.Underlying().(*types.Pointer).Elem().Underlying().(*types.Array).Elem()
			x.oblige(a.oname("safe-index"), "", *rc, and(app("<=", "0", idx), app("<", idx, fmt.Sprint(base.N))), ins.Pos(), nil, "index out of range")
			return Val{K: KLoc, T: types.NewPointer(et), Loc: &Loc{K: LElem, Arr: base.Arr, Idx: idx, T: et}}
		case KLoc:
			if base.Loc.K == LField {
				at, ok := base.Loc.T.Underlying().(*types.Array)
				if ok {
					x.oblige(a.oname("safe-index"), "", *rc, and(app("<=", "0", idx), app("<", idx, fmt.Sprint(at.Len()))), ins.Pos(), nil, "index out of range")
					return Val{K: KLoc, T: types.NewPointer(at.Elem()), Loc: &Loc{K: LFieldElem, Ref: base.Loc.Ref, Owner: base.Loc.Owner, Path: base.Loc.Path, Idx: idx, T: at.Elem()}}
				}
			}
		}
		unsup("IndexAddr on %s", describe(base))
	case *ssa.Index:
		base := a.val(ins.X)
		idx := a.val(ins.Index).S
		if base.K == KArray {
			et := base.T.Underlying().(*types.Array).Elem()
			x.oblige(a.oname("safe-index"), "", *rc, and(app("<=", "0", idx), app("<", idx, fmt.Sprint(base.N))), ins.Pos(), nil, "index out of range")
			return scalar(et, sel(base.S, idx))
		}
		unsup("Index on %s", describe(base))
	case *ssa.UnOp:
		return a.unop(ins, st, rc)
	case *ssa.BinOp:
		return a.binop(ins, st, rc)
	case *ssa.Phi:
		panic("phi handled at block entry")
	case *ssa.Extract:
		t := a.val(ins.Tuple)
		if t.K != KTuple || ins.Index >= len(t.Fs) {
			unsup("extract from %s", describe(t))
		}
		return t.Fs[ins.Index]
	case *ssa.ChangeType:
		v := a.val(ins.X)
		v.T = a.typ(ins.Type())
		return v
	case *ssa.Convert:
		return a.convert(ins)
	case *ssa.ChangeInterface:
		v := a.val(ins.X)
		v.T = a.typ(ins.Type())
		return v
	case *ssa.MakeInterface:
		// opaque: the dynamic value is not tracked (used for panic/Sprintf/Marshal arguments)
		v := a.val(ins.X)
		return Val{K: KScalar, T: a.typ(ins.Type()), S: x.boxValue(v), Fs: []Val{v}}
	case *ssa.MakeSlice:
		l, cp := a.val(ins.Len).S, a.val(ins.Cap).S
		t := a.typ(ins.Type())
		et := t.Underlying().(*types.Slice).Elem()
		x.oblige(a.oname("safe-make"), "", *rc, and(app("<=", "0", l), app("<=", l, cp)), ins.Pos(), nil, "make: len/cap out of range")
		ref := a.newRef(st, name)
		a.zeroElems(st, et, ref)
		return Val{K: KSlice, T: t, Arr: ref, Off: "0", Len: l, Cap: cp}
	case *ssa.MakeMap:
		t := a.typ(ins.Type())
		mt := t.Underlying().(*types.Map)
		ref := a.newRef(st, name)
		mk, ks, _ := x.mapSortsOf(mt)
		d := x.mdomArr(st, mk)
		st.mdom[mk] = c.Define("MD", arrSort("Int", arrSort(ks, "Bool")), store(d, ref, fmt.Sprintf("((as const %s) false)", arrSort(ks, "Bool"))))
		st.mlen = c.Define("ML", arrSort("Int", "Int"), store(x.mlenArr(st), ref, "0"))
		return scalar(t, ref)
	case *ssa.Slice:
		return a.slice(ins, st, rc)
	case *ssa.Lookup:
		m := a.val(ins.X)
		mt, ok := m.T.Underlying().(*types.Map)
		if !ok {
			unsup("string indexing")
		}
		v, present := x.mapLookup(st, mt, m.S, a.val(ins.Index))
		if ins.CommaOk {
			return Val{K: KTuple, Fs: []Val{x.nameVal(name, v), boolVal(c.Define(name+"_ok", "Bool", present))}}
		}
		return x.nameVal(name, v)
	case *ssa.Range:
		return a.rangeInit(ins, st)
	case *ssa.Next:
		return a.rangeNext(ins, st, rc)
	case *ssa.Call:
		return a.call(ins, st, rc)
	case *ssa.MakeClosure:
		unsup("closure creation")
	case *ssa.TypeAssert:
		unsup("type assertion")
	}
	unsup("value instruction %T", ins)
	return Val{}
}

func (x *Exec) boxValue(v Val) string {
	// interface values are opaque non-nil references
	x.ctx.DeclFun("iface_box", nil, "Int")
	return "iface_box"
}

func (a *Activation) newRef(st *State, name string) string {
	c := a.x.ctx
	ref := c.Define(name, "Int", app("+", st.alloc, "1"))
	st.alloc = ref
	return ref
}

func (a *Activation) zeroElems(st *State, et types.Type, ref string) {
	x := a.x
	if !isScalarType(et) {
		unsup("slice of non-scalar element type %s", typeStr(et))
	}
	srt := x.ctx.sortOf(et)
	z := x.ctx.zero(et)
	e := x.elemsArr(st, srt)
	st.elems[srt] = x.ctx.Define("E_"+srt, arrSort("Int", arrSort("Int", srt)), store(e, ref, x.ctx.ConstArr("Int", srt, z.S)))
}

func (a *Activation) alloc(ins *ssa.Alloc, st *State) Val {
	x := a.x
	c := x.ctx
	t := a.typ(ins.Type()).Underlying().(*types.Pointer).Elem()
	if !isTypeParam(t) {
		switch u := t.Underlying().(type) {
		case *types.Struct:
			if u.NumFields() > 0 {
				n, ok := types.Unalias(t).(*types.Named)
				if !ok {
					unsup("allocation of anonymous struct")
				}
				sz := objSize(t)
				ref := c.Define(ins.Name(), "Int", app("+", st.alloc, "1"))
				st.alloc = c.Define("alloc", "Int", app("+", st.alloc, fmt.Sprint(sz)))
				x.storeStruct(st, n, ref, c.zero(t))
				x.zeroGhosts(st, n, ref)
				return scalar(a.typ(ins.Type()), ref)
			}
		case *types.Array:
			ref := a.newRef(st, ins.Name())
			a.zeroElems(st, u.Elem(), ref)
			return Val{K: KArrPtr, T: a.typ(ins.Type()), Arr: ref, N: u.Len()}
		}
	}
	// local cell
	st.locals[ins] = c.zero(t)
	return Val{K: KLoc, T: a.typ(ins.Type()), Loc: &Loc{K: LLocal, Local: ins, T: t}}
}

// zeroGhosts: scalar ghost fields of a freshly allocated object start at their zero value (owner nil, position 0).
func (x *Exec) zeroGhosts(st *State, n *types.Named, ref string) {
	c := x.ctx
	prefix := originKey(n) + "."
	var names []string
	for k := range x.eng.ghosts {
		if strings.HasPrefix(k, prefix) {
			names = append(names, k)
		}
	}
	sort.Strings(names)
	for _, k := range names {
		g := x.eng.ghosts[k]
		key, elem, isMap := x.ghostKey(n, g)
		if isMap {
			continue
		}
		es := c.sortOf(elem)
		st.fields[key] = c.Define("H_"+key, arrSort("Int", es), store(x.fieldArr(st, key), ref, c.zero(elem).S))
	}
	// embedded (by-value) struct fields are sub-objects with their own ghost state
	stt := n.Underlying().(*types.Struct)
	for i := 0; i < stt.NumFields(); i++ {
		ft := stt.Field(i).Type()
		if isEmbeddedStructField(ft) {
			if sub, ok := types.Unalias(ft).(*types.Named); ok {
				x.zeroGhosts(st, sub, add(ref, subOffset(n, i)))
			}
		}
	}
}

// fieldPtrParam: a parameter of type *P, P a type parameter, of a function that also has a parameter of type **N (or *N) where
// the struct N has exactly one field of type P, is modelled as the address of that field of SOME allocated node: the only
// addresses of this type the library ever passes (avltree.removeMin's minKey/minVal are &q.Key / &q.Value). In contracts:
// deref(p) is the field's content, slot_tree(p) the node that owns the field, `modifies deref(p)` the frame item.
func (x *Exec) fieldPtrParam(fn *ssa.Function, p *ssa.Parameter) (Val, bool) {
	pt, ok := types.Unalias(p.Type()).(*types.Pointer)
	if !ok || !isTypeParam(pt.Elem()) {
		return Val{}, false
	}
	for _, q := range fn.Params {
		if q == p {
			continue
		}
		qt, ok := types.Unalias(q.Type()).(*types.Pointer)
		if !ok {
			continue
		}
		n := namedStruct(qt.Elem())
		if n == nil {
			if q2, ok := types.Unalias(qt.Elem()).(*types.Pointer); ok {
				n = namedStruct(q2)
			}
		}
		if n == nil {
			continue
		}
		stt, ok := n.Underlying().(*types.Struct)
		if !ok {
			continue
		}
		idx := -1
		for i := 0; i < stt.NumFields(); i++ {
			if types.Identical(types.Unalias(stt.Field(i).Type()), types.Unalias(pt.Elem())) {
				if idx >= 0 {
					idx = -2
					break
				}
				idx = i
			}
		}
		if idx < 0 {
			continue
		}
		c := x.ctx
		ref := c.Fresh("p_"+p.Name()+".owner", "Int")
		c.Assume(and(app("<", "0", ref), app("<=", ref, x.alloc0)))
		return Val{K: KLoc, T: p.Type(), Loc: &Loc{K: LField, Owner: n, Path: []int{idx}, Ref: ref, T: pt.Elem()}}, true
	}
	return Val{}, false
}

// slotParam: a parameter of type **N where N is a struct with an array-of-*N field (child slots) in a package that has a
// struct with a field Root of type *N is modelled as a symbolic slot: the address of some tree's Root or of some node's
// child slot (the only two addresses the library ever passes).
func (x *Exec) slotParam(p *ssa.Parameter) (Val, bool) {
	pt, ok := types.Unalias(p.Type()).(*types.Pointer)
	if !ok {
		return Val{}, false
	}
	pt2, ok := types.Unalias(pt.Elem()).(*types.Pointer)
	if !ok {
		return Val{}, false
	}
	n := namedStruct(pt.Elem())
	if n == nil {
		return Val{}, false
	}
	_ = pt2
	stt := n.Underlying().(*types.Struct)
	arrIdx := -1
	for i := 0; i < stt.NumFields(); i++ {
		if at, ok := stt.Field(i).Type().Underlying().(*types.Array); ok {
			if namedStruct(at.Elem()) != nil && originKey(namedStruct(at.Elem())) == originKey(n) {
				arrIdx = i
			}
		}
	}
	if arrIdx < 0 || n.Obj().Pkg() == nil {
		return Val{}, false
	}
	var treeT *types.Named
	rootIdx := -1
	scope := n.Obj().Pkg().Scope()
	for _, nm := range scope.Names() {
		tn, ok := scope.Lookup(nm).(*types.TypeName)
		if !ok {
			continue
		}
		cand, ok := tn.Type().(*types.Named)
		if !ok {
			continue
		}
		cs, ok := cand.Underlying().(*types.Struct)
		if !ok {
			continue
		}
		for i := 0; i < cs.NumFields(); i++ {
			if cs.Field(i).Name() == "Root" {
				if rn := namedStruct(cs.Field(i).Type()); rn != nil && originKey(rn) == originKey(n) {
					treeT, rootIdx = cand, i
				}
			}
		}
	}
	if treeT == nil {
		return Val{}, false
	}
	// instantiate the tree type with the node's type arguments
	if n.TypeArgs() != nil && treeT.TypeParams() != nil && treeT.TypeParams().Len() == n.TypeArgs().Len() {
		var targs []types.Type
		for i := 0; i < n.TypeArgs().Len(); i++ {
			targs = append(targs, n.TypeArgs().At(i))
		}
		if inst, err := types.Instantiate(nil, treeT, targs, false); err == nil {
			treeT = inst.(*types.Named)
		}
	}
	c := x.ctx
	name := "p_" + p.Name()
	l := &Loc{K: LSlot, Owner: n, Path: []int{arrIdx}, T: pt.Elem(), TreeOwner: treeT, RootPath: rootIdx,
		IsRoot: c.Fresh(name+".isroot", "Bool"), Ref: c.Fresh(name+".tree", "Int"), NodeRef: c.Fresh(name+".node", "Int"), Idx: c.Fresh(name+".idx", "Int")}
	at := stt.Field(arrIdx).Type().Underlying().(*types.Array)
	c.Assume(and(app("<=", "0", l.Idx), app("<", l.Idx, fmt.Sprint(at.Len())), app("<", "0", l.Ref), app("<=", l.Ref, x.alloc0), app("<", "0", l.NodeRef), app("<=", l.NodeRef, x.alloc0)))
	return Val{K: KLoc, T: p.Type(), Loc: l}, true
}

func (a *Activation) load(p Val, st *State, rc string, pos token.Pos) Val {
	x := a.x
	switch p.K {
	case KLoc:
		l := p.Loc
		switch l.K {
		case LField:
			return x.loadField(st, l.Owner, l.Ref, l.Path[0])
		case LElem:
			return x.loadElem(st, l.T, l.Arr, l.Idx)
		case LFieldElem:
			arrv := x.loadField(st, l.Owner, l.Ref, l.Path[0])
			return scalar(l.T, sel(arrv.S, l.Idx))
		case LSlot:
			rootv := x.loadField(st, l.TreeOwner, l.Ref, l.RootPath)
			arrv := x.loadField(st, l.Owner, l.NodeRef, l.Path[0])
			return scalar(l.T, ite(l.IsRoot, rootv.S, sel(arrv.S, l.Idx)))
		case LLocal:
			v, ok := st.locals[l.Local]
			if !ok {
				unsup("load from unknown local cell")
			}
			return v
		case LGlobal:
			if isUnitType(l.T) {
				return x.ctx.zero(l.T)
			}
			if !isScalarType(l.T) {
				unsup("global variable %s of type %s", l.Name, typeStr(l.T))
			}
			name := "global_" + sanitize(l.Name)
			x.ctx.DeclFun(name, nil, x.ctx.sortOf(l.T))
			x.note("package variable " + l.Name + " is treated as an immutable constant")
			return scalar(l.T, name)
		}
	case KScalar:
		// pointer to struct: load the whole struct value
		pt, ok := p.T.Underlying().(*types.Pointer)
		if ok {
			if _, isS := pt.Elem().Underlying().(*types.Struct); isS && !isTypeParam(pt.Elem()) {
				x.oblige(a.oname("safe-nil"), "", rc, not(eq(p.S, "0")), pos, nil, "nil pointer dereference (struct load)")
				return x.loadStruct(st, pt.Elem(), p.S)
			}
		}
		unsup("load through pointer value of type %s", typeStr(p.T))
	}
	unsup("load from %s", describe(p))
	return Val{}
}

func (a *Activation) store(ins ssa.Instruction, p Val, v Val, st *State, rc string, pos token.Pos) {
	x := a.x
	c := x.ctx
	switch p.K {
	case KLoc:
		l := p.Loc
		switch l.K {
		case LField:
			f := l.Owner.Underlying().(*types.Struct).Field(l.Path[0])
			for _, kr := range x.fieldKeys(l.Owner, f.Name()) {
				a.frameField(kr.key, add(l.Ref, kr.off), st, rc, pos)
				break // one obligation per store (all components share the same ref)
			}
			x.storeField(st, l.Owner, l.Ref, l.Path[0], v)
			return
		case LElem:
			a.frameElems(l.Arr, st, rc, pos)
			x.storeElem(st, l.T, l.Arr, l.Idx, v)
			return
		case LFieldElem:
			f := l.Owner.Underlying().(*types.Struct).Field(l.Path[0])
			for _, kr := range x.fieldKeys(l.Owner, f.Name()) {
				a.frameField(kr.key, l.Ref, st, rc, pos)
			}
			arrv := x.loadField(st, l.Owner, l.Ref, l.Path[0])
			nv := arrv
			nv.S = c.Define("arrupd", c.sortOf(arrv.T), store(arrv.S, l.Idx, v.S))
			x.storeField(st, l.Owner, l.Ref, l.Path[0], nv)
			return
		case LSlot:
			rf := l.TreeOwner.Underlying().(*types.Struct).Field(l.RootPath)
			for _, kr := range x.fieldKeys(l.TreeOwner, rf.Name()) {
				a.frameFieldIf(kr.key, add(l.Ref, kr.off), l.IsRoot, st, rc, pos)
				break
			}
			cf := l.Owner.Underlying().(*types.Struct).Field(l.Path[0])
			for _, kr := range x.fieldKeys(l.Owner, cf.Name()) {
				a.frameFieldIf(kr.key, l.NodeRef, not(l.IsRoot), st, rc, pos)
			}
			oldRoot := x.loadField(st, l.TreeOwner, l.Ref, l.RootPath)
			nr := oldRoot
			nr.S = c.Define("slotroot", c.sortOf(oldRoot.T), ite(l.IsRoot, v.S, oldRoot.S))
			x.storeField(st, l.TreeOwner, l.Ref, l.RootPath, nr)
			arrv := x.loadField(st, l.Owner, l.NodeRef, l.Path[0])
			nv := arrv
			nv.S = c.Define("slotupd", c.sortOf(arrv.T), ite(l.IsRoot, arrv.S, store(arrv.S, l.Idx, v.S)))
			x.storeField(st, l.Owner, l.NodeRef, l.Path[0], nv)
			return
		case LLocal:
			if nm, isCell := x.cellParams[l.Local]; isCell && x.frame != nil && x.frame.has {
				ok := "false"
				if x.frame.cells[l.Local] {
					ok = "true"
				}
				x.oblige(a.oname("frame"), "cell", rc, ok, pos, nil, "write through the pointer parameter "+nm+" is inside the modifies clause (deref("+nm+"))")
			}
			st.locals[l.Local] = v
			return
		}
	case KScalar:
		pt, ok := p.T.Underlying().(*types.Pointer)
		if ok {
			if _, isS := pt.Elem().Underlying().(*types.Struct); isS && !isTypeParam(pt.Elem()) {
				x.oblige(a.oname("safe-nil"), "", rc, not(eq(p.S, "0")), pos, nil, "nil pointer dereference (struct store)")
				n := types.Unalias(pt.Elem()).(*types.Named)
				stt := n.Underlying().(*types.Struct)
				for i := 0; i < stt.NumFields(); i++ {
					for _, kr := range x.fieldKeys(n, stt.Field(i).Name()) {
						a.frameField(kr.key, add(p.S, kr.off), st, rc, pos)
						break
					}
				}
				x.storeStruct(st, pt.Elem(), p.S, v)
				return
			}
		}
	}
	unsup("store through %s", describe(p))
}

func (a *Activation) frameField(key, ref string, st *State, rc string, pos token.Pos) {
	x := a.x
	if !x.frame.has {
		return
	}
	x.oblige(a.oname("frame"), "store", rc, x.frame.allowsField(key, ref, x.alloc0), pos, nil, "store to "+key+" is inside the modifies clause")
}
func (a *Activation) frameFieldIf(key, ref, cond string, st *State, rc string, pos token.Pos) {
	x := a.x
	if !x.frame.has {
		return
	}
	x.oblige(a.oname("frame"), "ghost", and(rc, cond), x.frame.allowsField(key, ref, x.alloc0), pos, nil, "ghost store to "+key+" is inside the modifies clause")
}
func (a *Activation) frameElems(arr string, st *State, rc string, pos token.Pos) {
	x := a.x
	if !x.frame.has {
		return
	}
	x.oblige(a.oname("frame"), "elems", rc, x.frame.allowsElems(arr, x.alloc0), pos, nil, "write to slice elements is inside the modifies clause")
}
func (a *Activation) frameMap(m string, st *State, rc string, pos token.Pos) {
	x := a.x
	if !x.frame.has {
		return
	}
	x.oblige(a.oname("frame"), "map", rc, x.frame.allowsMap(m, x.alloc0), pos, nil, "write to Go map is inside the modifies clause")
}

func (a *Activation) unop(ins *ssa.UnOp, st *State, rc *string) Val {
	x := a.x
	c := x.ctx
	v := a.val(ins.X)
	switch ins.Op {
	case token.MUL:
		r := a.load(v, st, *rc, ins.Pos())
		r = x.nameVal(ins.Name(), r)
		// loaded values satisfy their type invariant (heap closedness)
		if inv := x.typeInv(r, st.alloc); inv != "true" {
			c.Assume(implies(*rc, inv))
		}
		return r
	case token.NOT:
		return scalar(v.T, c.Define(ins.Name(), "Bool", not(v.S)))
	case token.SUB:
		if isFloatType(v.T) {
			return scalar(v.T, app("-", v.S))
		}
		return scalar(v.T, c.Define(ins.Name(), "Int", app("-", v.S)))
	case token.XOR:
		c.DeclFun("bit_not", []string{"Int"}, "Int")
		return scalar(v.T, app("bit_not", v.S))
	}
	unsup("unary operator %s", ins.Op)
	return Val{}
}

func (a *Activation) binop(ins *ssa.BinOp, st *State, rc *string) Val {
	x := a.x
	c := x.ctx
	l, r := a.val(ins.X), a.val(ins.Y)
	t := a.typ(ins.Type())
	name := ins.Name()
	switch ins.Op {
	case token.EQL, token.NEQ:
		var e string
		if l.K == KSlice || r.K == KSlice {
			// comparison with nil only
			if l.K == KSlice {
				e = eq(l.Arr, "0")
			} else {
				e = eq(r.Arr, "0")
			}
		} else if l.K == KLoc || r.K == KLoc {
			unsup("comparison of interior pointers")
		} else {
			e = c.eqVal(l, r)
		}
		if ins.Op == token.NEQ {
			e = not(e)
		}
		return scalar(t, c.Define(name, "Bool", e))
	}
	if isFloatType(l.T) {
		switch ins.Op {
		case token.ADD, token.SUB:
			op := map[token.Token]string{token.ADD: "+", token.SUB: "-"}[ins.Op]
			return scalar(t, x.fltRound(app(op, l.S, r.S)))
		case token.MUL:
			if isFltLiteral(l.S) || isFltLiteral(r.S) {
				return scalar(t, x.fltRound(app("*", l.S, r.S)))
			}
			x.note("nonlinear float multiplication is unconstrained in " + a.fn.Name())
			return scalar(t, c.Fresh("fmul", "Real"))
		case token.QUO:
			if isFltLiteral(r.S) {
				return scalar(t, x.fltRound(app("/", l.S, r.S)))
			}
			x.note("nonlinear float division is unconstrained in " + a.fn.Name())
			return scalar(t, c.Fresh("fdiv", "Real"))
		}
		cmp := map[token.Token]string{token.LSS: "<", token.LEQ: "<=", token.GTR: ">", token.GEQ: ">="}[ins.Op]
		if cmp != "" {
			return scalar(t, c.Define(name, "Bool", app(cmp, l.S, r.S)))
		}
		unsup("float operator %s", ins.Op)
	}
	if isStringType(l.T) {
		switch ins.Op {
		case token.ADD:
			return scalar(t, c.Define(name, "Str", x.strConcat(l.S, r.S)))
		}
		c.DeclFun("str_lt", []string{"Str", "Str"}, "Bool")
		switch ins.Op {
		case token.LSS:
			return scalar(t, app("str_lt", l.S, r.S))
		case token.GTR:
			return scalar(t, app("str_lt", r.S, l.S))
		case token.LEQ:
			return scalar(t, not(app("str_lt", r.S, l.S)))
		case token.GEQ:
			return scalar(t, not(app("str_lt", l.S, r.S)))
		}
		unsup("string operator %s", ins.Op)
	}
	if isBoolType(l.T) {
		switch ins.Op {
		case token.LAND, token.AND:
			return scalar(t, c.Define(name, "Bool", and(l.S, r.S)))
		case token.LOR, token.OR:
			return scalar(t, c.Define(name, "Bool", or(l.S, r.S)))
		}
	}
	if isTypeParam(l.T) {
		// ordered comparison on a type parameter (cmp.Ordered): uninterpreted strict order
		srt := c.sortOf(l.T)
		fn := "lt_" + srt
		c.DeclFun(fn, []string{srt, srt}, "Bool")
		switch ins.Op {
		case token.LSS:
			return scalar(t, app(fn, l.S, r.S))
		case token.GTR:
			return scalar(t, app(fn, r.S, l.S))
		case token.LEQ:
			return scalar(t, not(app(fn, r.S, l.S)))
		case token.GEQ:
			return scalar(t, not(app(fn, l.S, r.S)))
		}
		unsup("operator %s on type parameter", ins.Op)
	}
	switch ins.Op {
	case token.ADD, token.SUB, token.MUL:
		op := map[token.Token]string{token.ADD: "+", token.SUB: "-", token.MUL: "*"}[ins.Op]
		res := c.Define(name, "Int", app(op, l.S, r.S))
		a.overflow(res, t, *rc, ins.Pos())
		return scalar(t, res)
	case token.QUO:
		x.oblige(a.oname("safe-div"), "", *rc, not(eq(r.S, "0")), ins.Pos(), nil, "integer division by zero")
		return scalar(t, c.Define(name, "Int", x.goDiv(l.S, r.S)))
	case token.REM:
		x.oblige(a.oname("safe-div"), "", *rc, not(eq(r.S, "0")), ins.Pos(), nil, "integer division by zero")
		return scalar(t, c.Define(name, "Int", x.goRem(l.S, r.S)))
	case token.LSS, token.LEQ, token.GTR, token.GEQ:
		op := map[token.Token]string{token.LSS: "<", token.LEQ: "<=", token.GTR: ">", token.GEQ: ">="}[ins.Op]
		return scalar(t, c.Define(name, "Bool", app(op, l.S, r.S)))
	case token.SHL:
		if n, ok := isNumeral(r.S); ok && n >= 0 && n < 62 {
			res := c.Define(name, "Int", app("*", l.S, fmt.Sprint(int64(1)<<uint(n))))
			a.overflow(res, t, *rc, ins.Pos())
			return scalar(t, res)
		}
	case token.SHR:
		if n, ok := isNumeral(r.S); ok && n >= 0 && n < 62 {
			return scalar(t, c.Define(name, "Int", app("div", l.S, fmt.Sprint(int64(1)<<uint(n)))))
		}
	}
	if ins.Op == token.XOR {
		if n, ok := isNumeral(r.S); ok && n == 1 {
			// x^1 flips the lowest bit: exact on 0 and 1 (the only values the AVL child index takes)
			c.DeclFun("bit_xor", []string{"Int", "Int"}, "Int")
			return scalar(t, c.Define(name, "Int", ite(eq(l.S, "0"), "1", ite(eq(l.S, "1"), "0", app("bit_xor", l.S, "1")))))
		}
	}
	// other bit operations: uninterpreted (sound, imprecise)
	fn := "bitop_" + sanitize(ins.Op.String())
	fnName := map[token.Token]string{token.AND: "bit_and", token.OR: "bit_or", token.XOR: "bit_xor", token.SHL: "bit_shl", token.SHR: "bit_shr", token.AND_NOT: "bit_andnot"}[ins.Op]
	if fnName != "" {
		fn = fnName
	}
	c.DeclFun(fn, []string{"Int", "Int"}, "Int")
	x.note("bit operation " + ins.Op.String() + " treated as uninterpreted in " + a.fn.Name())
	res := scalar(t, c.Define(name, "Int", app(fn, l.S, r.S)))
	if inv := x.typeInv(res, st.alloc); inv != "true" {
		c.Assume(inv)
	}
	return res
}

// overflow: every arithmetic result must fit its type (wrap-around is proved absent, not modelled).
func (a *Activation) overflow(res string, t types.Type, rc string, pos token.Pos) {
	if !checkOverflow {
		return
	}
	b, ok := t.Underlying().(*types.Basic)
	if !ok {
		return
	}
	lo, hi, ok := intRange(b)
	if !ok {
		return
	}
	a.x.oblige(a.oname("safe-ovf"), "", rc, and(app("<=", lo, res), app("<=", res, hi)), pos, nil, "integer overflow")
}

var checkOverflow = false

func (a *Activation) convert(ins *ssa.Convert) Val {
	x := a.x
	c := x.ctx
	v := a.val(ins.X)
	to := a.typ(ins.Type())
	from := v.T
	switch {
	case isIntType(from) && isIntType(to):
		a.overflow(v.S, to, a.rcOf[ins.Block()], ins.Pos())
		return scalar(to, v.S)
	case isIntType(from) && isFloatType(to):
		return scalar(to, x.fltRound(app("to_real", v.S)))
	case isFloatType(from) && isIntType(to):
		return scalar(to, x.fltToInt(v.S))
	case isFloatType(from) && isFloatType(to):
		return scalar(to, x.fltRound(v.S))
	case isStringType(from) && isStringType(to):
		return scalar(to, v.S)
	}
	// []byte <-> string and others: opaque
	if v.K == KSlice && isStringType(to) {
		c.DeclSort("Str")
		return scalar(to, c.Fresh("str_of_bytes", "Str"))
	}
	if isStringType(from) {
		if _, ok := to.Underlying().(*types.Slice); ok {
			return a.freshSlice(to, nil, ins.Name())
		}
	}
	unsup("conversion %s -> %s", typeStr(from), typeStr(to))
	return Val{}
}

// freshSlice returns an unknown freshly allocated slice (used for opaque results such as []byte).
func (a *Activation) freshSlice(t types.Type, st *State, name string) Val {
	c := a.x.ctx
	v := c.freshVal(name, t)
	if st != nil {
		ref := a.newRef(st, name)
		v.Arr = ref
		// contents unknown: havoc that row of the element heap
		et := t.Underlying().(*types.Slice).Elem()
		srt := c.sortOf(et)
		e := a.x.elemsArr(st, srt)
		row := c.Fresh("row", arrSort("Int", srt))
		st.elems[srt] = c.Define("E_"+srt, arrSort("Int", arrSort("Int", srt)), store(e, ref, row))
	}
	c.Assume(and(eq(v.Off, "0"), app("<=", "0", v.Len), app("<=", v.Len, v.Cap)))
	return v
}

func (a *Activation) slice(ins *ssa.Slice, st *State, rc *string) Val {
	x := a.x
	c := x.ctx
	base := a.val(ins.X)
	t := a.typ(ins.Type())
	name := ins.Name()
	var arr, off, ln, cp string
	switch base.K {
	case KSlice:
		arr, off, ln, cp = base.Arr, base.Off, base.Len, base.Cap
	case KArrPtr:
		arr, off, ln, cp = base.Arr, "0", fmt.Sprint(base.N), fmt.Sprint(base.N)
	default:
		if isStringType(base.T) {
			c.DeclSort("Str")
			x.note("string slicing is opaque in " + a.fn.Name())
			return scalar(t, c.Fresh("substr", "Str"))
		}
		unsup("slice of %s", describe(base))
	}
	lo, hi, mx := "0", ln, cp
	if ins.Low != nil {
		lo = a.val(ins.Low).S
	}
	if ins.High != nil {
		hi = a.val(ins.High).S
	}
	if ins.Max != nil {
		mx = a.val(ins.Max).S
	}
	if ins.Low != nil || ins.High != nil || ins.Max != nil {
		x.oblige(a.oname("safe-slice"), "", *rc, and(app("<=", "0", lo), app("<=", lo, hi), app("<=", hi, mx), app("<=", mx, cp)), ins.Pos(), nil, "slice bounds out of range")
	}
	r := Val{K: KSlice, T: t, Arr: arr, Off: c.Define(name+"_off", "Int", app("+", off, lo)), Len: c.Define(name+"_len", "Int", app("-", hi, lo)), Cap: c.Define(name+"_cap", "Int", app("-", mx, lo))}
	if base.K == KSlice && lo != "0" {
		if base.OffBase != "" {
			r.OffBase, r.OffDelta = base.OffBase, app("+", base.OffDelta, lo)
		} else {
			r.OffBase, r.OffDelta = base.Off, lo
		}
	}
	return r
}

// sidx: index term of element i of slice value s (see Val.OffBase)
func (x *Exec) sidx(s Val, i string) string {
	if s.OffBase != "" {
		return x.eidx(s.OffBase, app("+", s.OffDelta, i))
	}
	return x.eidx(s.Off, i)
}

// ---------- loops ----------

func (a *Activation) loopSpec(li *loopInfo) *LoopSpec {
	if a.spec == nil {
		return nil
	}
	return a.spec.Loops[li.ord]
}

// staleAt: is there an assignment of variable `name` to a value other than v from which block b can be reached without
// passing through v's defining block again?
func (a *Activation) staleAt(name string, v ssa.Value, b *ssa.BasicBlock) bool {
	var defBlock *ssa.BasicBlock
	switch d := v.(type) {
	case ssa.Instruction:
		defBlock = d.Block()
	}
	// the DebugRef that binds name to v tells where the binding happens (v itself may be a parameter or constant)
	for _, blk := range a.fn.Blocks {
		for _, ins := range blk.Instrs {
			if dr, ok := ins.(*ssa.DebugRef); ok && !dr.IsAddr && dr.X == v && dr.Object() != nil && dr.Object().Name() == name {
				if defBlock == nil || blk.Dominates(defBlock) {
					defBlock = blk
				}
			}
		}
	}
	if defBlock == nil || defBlock == b {
		return false
	}
	for _, blk := range a.fn.Blocks {
		if blk == b || blk == defBlock || blk.Dominates(b) {
			continue
		}
		other := false
		for _, ins := range blk.Instrs {
			if dr, ok := ins.(*ssa.DebugRef); ok && !dr.IsAddr && dr.X != v && dr.Object() != nil && dr.Object().Name() == name {
				if _, isVar := dr.Object().(*types.Var); isVar {
					other = true
				}
			}
		}
		if !other || !defBlock.Dominates(blk) {
			continue
		}
		// can b be reached from blk without passing through defBlock?
		seen := map[*ssa.BasicBlock]bool{blk: true}
		work := []*ssa.BasicBlock{blk}
		for len(work) > 0 {
			c := work[len(work)-1]
			work = work[:len(work)-1]
			for _, s := range c.Succs {
				if s == defBlock || seen[s] {
					continue
				}
				if s == b {
					return true
				}
				seen[s] = true
				work = append(work, s)
			}
		}
	}
	return false
}

// varsAt resolves source-level variable names to SSA values visible at the head of block b
// (atEnd: at the end of b). The latest DebugRef / named phi on the dominator chain wins.
func (a *Activation) varsAt(b *ssa.BasicBlock, atEnd bool, override map[ssa.Value]Val) func(string) (Val, bool) {
	return a.varsAtUpto(b, atEnd, override, nil)
}

// varsAtUpto: like varsAt(b, true, ...) but only instructions of b before `upto` count.
func (a *Activation) varsAtUpto(b *ssa.BasicBlock, atEnd bool, override map[ssa.Value]Val, upto ssa.Instruction) func(string) (Val, bool) {
	type cand struct {
		v    ssa.Value
		rank int
		addr bool
	}
	domDepth := func(blk *ssa.BasicBlock) int {
		d := 0
		for x := blk; x != nil; x = x.Idom() {
			d++
		}
		return d
	}
	best := map[string]cand{}
	consider := func(name string, v ssa.Value, rank int, addr bool) {
		if cur, ok := best[name]; !ok || rank > cur.rank {
			best[name] = cand{v, rank, addr}
		}
	}
	for _, blk := range a.fn.Blocks {
		same := blk == b
		if !same && !blk.Dominates(b) {
			continue
		}
		d := domDepth(blk) * 100000
		for i, ins := range blk.Instrs {
			if same && upto != nil && ins == upto {
				break
			}
			switch ins := ins.(type) {
			case *ssa.Phi:
				if ins.Comment != "" {
					consider(ins.Comment, ins, d+i, false)
				}
				if ins.Comment == "rangeindex" {
					// "rangelen": the length the hidden index of a range-over-slice loop is compared with
					if refs := ins.Referrers(); refs != nil {
						for _, r := range *refs {
							if add, ok := r.(*ssa.BinOp); ok && add.Op == token.ADD {
								if rr := add.Referrers(); rr != nil {
									for _, r2 := range *rr {
										if lt, ok := r2.(*ssa.BinOp); ok && lt.Op == token.LSS && lt.X == add {
											consider("rangelen", lt.Y, d+i, false)
										}
									}
								}
							}
						}
					}
				}
			case *ssa.Alloc:
				// a source variable that lives in memory is always denoted by its cell
				if ins.Comment != "" && ins.Comment != "complit" && ins.Comment != "varargs" && !(same && !atEnd) {
					consider(ins.Comment, ins, (1<<40)+d+i, true)
				}
			case *ssa.DebugRef:
				if same && !atEnd {
					continue
				}
				obj := ins.Object()
				if obj == nil {
					continue
				}
				if vr, isVar := obj.(*types.Var); !isVar || vr.IsField() {
					continue // a selector x.f refers to the field object f: not a program variable
				}
				rank := d + i
				if ins.IsAddr {
					rank += 1 << 40 // a variable that lives in memory is always denoted by its cell
				}
				consider(obj.Name(), ins.X, rank, ins.IsAddr)
			}
		}
	}
	ambiguous := map[string]bool{}
	checked := map[string]bool{}
	return func(name string) (Val, bool) {
		cd, ok := best[name]
		if !ok {
			return Val{}, false
		}
		// A variable that is dead at b has no phi there: the dominating definition found above may then be stale (some
		// path from a later assignment reaches b without passing that definition again). Such a name has no single value
		// here and must not be used (found the hard way: `child` at the exit of redblacktree.Remove resolved to its
		// initial nil). The contract has to restate it by an expression.
		if !checked[name] {
			checked[name] = true
			ambiguous[name] = !cd.addr && a.staleAt(name, cd.v, b)
		}
		if ambiguous[name] {
			efail("program variable %q has no single value at this point (it is dead here and assigned on some path); restate it by an expression", name)
		}
		if ov, ok := override[cd.v]; ok {
			return ov, true
		}
		var v Val
		switch cv := cd.v.(type) {
		case *ssa.Const, *ssa.Function:
			v = a.val(cv)
		default:
			var ok bool
			v, ok = a.vals[cd.v]
			if !ok {
				return Val{}, false
			}
		}
		if cd.addr {
			// the variable lives in memory: the caller must load it; only local cells are supported here
			if v.K == KLoc && v.Loc.K == LLocal && a.curSt != nil {
				lv, ok := a.curSt.locals[v.Loc.Local]
				return lv, ok
			}
			if v.K == KScalar && namedStruct(v.T) != nil {
				// a struct-typed local: the name denotes (a pointer to) the object, so x.f and x != nil work
				return v, true
			}
			return Val{}, false
		}
		return v, true
	}
}

func (a *Activation) loopEnv(li *loopInfo, st *State, override map[ssa.Value]Val) *Env {
	env := a.env(st, a.entrySt)
	a.curSt = st
	env.lookup = a.varsAt(li.header, false, override)
	return env
}

func (a *Activation) loopHead(li *loopInfo, st *State, rc string) (*State, string) {
	x := a.x
	c := x.ctx
	ls := a.loopSpec(li)
	pos := token.NoPos
	if len(li.header.Instrs) > 0 {
		pos = li.header.Instrs[0].Pos()
	}
	// ghost loop variables: initial values
	if ls != nil {
		env0 := a.loopEnv(li, st, nil)
		for _, g := range ls.GhostVars {
			st.gvars[g.Name] = x.nameVal("g_"+g.Name, env0.eval(g.Init))
		}
	}
	// inv-init
	if ls != nil {
		env := a.loopEnv(li, st, nil)
		for i, inv := range ls.Invariants {
			label := inv.Label
			if label == "" {
				label = fmt.Sprint(i + 1)
			}
			cs := env.conjuncts(inv.E, 0)
			for k, cj := range cs {
				l := label
				if len(cs) > 1 {
					l = fmt.Sprintf("%s.%d", label, k+1)
				}
				x.oblige(a.oname(fmt.Sprintf("loop%d:inv-init", li.ord)), l, rc, cj.Term, pos, inv.Tags, cj.Text).setAlts(cj.Alts)
			}
		}
	} else {
		x.note(fmt.Sprintf("loop %d of %s has no invariant (treated as 'true')", li.ord, a.fn.Name()))
	}
	// havoc
	x.havocSeen = true
	pre := st
	st = st.clone()
	ws := &WriteSet{fields: map[string]bool{}}
	var blocks []*ssa.BasicBlock
	for b := range li.blocks {
		blocks = append(blocks, b)
	}
	sort.Slice(blocks, func(i, j int) bool { return blocks[i].Index < blocks[j].Index })
	x.eng.scanWritesBlocks(a.fn, blocks, ws)
	if a.spec != nil {
		for _, g := range a.spec.Ghost {
			if g.Anchor == fmt.Sprintf("backedge %d", li.ord) {
				ws.fields[g.Field] = true
			}
		}
	}
	x.havoc(st, pre, ws, nil, nil)
	if ws.calls {
		c.Assume(app(">=", st.ncall, pre.ncall))
	}
	// function-level frame also bounds what the loop may have changed
	x.assumeFrameSince(st, x.entry, x.frame)
	// locals mentioned in the loop
	for _, b := range blocks {
		for _, ins := range b.Instrs {
			for _, op := range ins.Operands(nil) {
				if al, ok := (*op).(*ssa.Alloc); ok {
					if old, has := st.locals[al]; has {
						if _, isLoad := ins.(*ssa.UnOp); !isLoad {
							nv := c.freshVal("loc_"+al.Name(), old.T)
							c.Assume(x.typeInv(nv, st.alloc))
							st.locals[al] = nv
						}
					}
				}
			}
		}
	}
	// function-level ghost variables may be assigned anywhere in the loop: they become arbitrary
	if a.spec != nil && a.depth == 0 {
		for _, g := range a.spec.GhostVars {
			if old, ok := st.gvars[g.Name]; ok && (old.K == KScalar || (old.K == KMapView && old.Map == nil)) {
				nv := old
				srt := old.Srt
				if srt == "" {
					srt = c.sortOf(old.T)
				}
				nv.S = c.Fresh("g_"+g.Name, srt)
				st.gvars[g.Name] = nv
			}
		}
	}
	// ghost state of map ranges advanced inside this loop
	for _, b := range blocks {
		for _, ins := range b.Instrs {
			if nx, ok := ins.(*ssa.Next); ok && !nx.IsString {
				if rg, ok := nx.Iter.(*ssa.Range); ok {
					n := a.rangeOrd(rg)
					vk, ck := fmt.Sprintf("visited%d", n), fmt.Sprintf("nvisited%d", n)
					if old, has := st.gvars[vk]; has {
						nv := old
						nv.S = c.Fresh(vk, old.Srt)
						st.gvars[vk] = nv
						st.gvars[ck] = intVal(c.Fresh(ck, "Int"))
						c.Assume(app(">=", st.gvars[ck].S, "0"))
					}
				}
			}
		}
	}
	// phi values become arbitrary
	for _, ins := range li.header.Instrs {
		phi, ok := ins.(*ssa.Phi)
		if !ok {
			break
		}
		old := a.vals[phi]
		nv := c.freshVal("h_"+phi.Name(), old.T)
		if old.K == KLoc {
			unsup("loop-carried interior pointer")
		}
		c.Assume(x.typeInv(nv, st.alloc))
		a.vals[phi] = nv
	}
	if ls != nil {
		for _, g := range ls.GhostVars {
			old := st.gvars[g.Name]
			if old.K == KScalar {
				srt := old.Srt
				if old.T != nil {
					srt = c.sortOf(old.T)
				}
				nv := old
				nv.S = c.Fresh("g_"+g.Name, srt)
				st.gvars[g.Name] = nv
			} else {
				efail("ghost loop variable %s must be scalar", g.Name)
			}
		}
		env := a.loopEnv(li, st, nil)
		for i, inv := range ls.Invariants {
			c.Comment(fmt.Sprintf("loop %d invariant %s", li.ord, inv.Text))
			c.AssumeTagged(fmt.Sprintf("loop%d:inv:%s", li.ord, clauseLabel(inv.Label, i)), implies(rc, env.evalBool(inv.E)))
		}
		// remember variant values at the head
		if len(ls.Decreases) > 0 {
			var vs []string
			for _, d := range ls.Decreases {
				vs = append(vs, c.Define("variant", "Int", env.evalInt(d)))
			}
			a.variantAt(li, vs)
		}
	}
	return st, rc
}

var variantStore = map[*Activation]map[*loopInfo][]string{}

func (a *Activation) variantAt(li *loopInfo, vs []string) {
	if variantStore[a] == nil {
		variantStore[a] = map[*loopInfo][]string{}
	}
	variantStore[a][li] = vs
}

func (a *Activation) backEdge(li *loopInfo, from *ssa.BasicBlock, st *State, cond string) {
	x := a.x
	ls := a.loopSpec(li)
	if ls == nil {
		return
	}
	st = st.clone()
	pos := token.NoPos
	if len(from.Instrs) > 0 {
		pos = from.Instrs[len(from.Instrs)-1].Pos()
	}
	if !pos.IsValid() && len(li.header.Instrs) > 0 {
		pos = li.header.Instrs[0].Pos()
	}
	// phi values at the next iteration
	override := map[ssa.Value]Val{}
	idx := -1
	for pi, p := range li.header.Preds {
		if p == from {
			idx = pi
		}
	}
	for _, ins := range li.header.Instrs {
		phi, ok := ins.(*ssa.Phi)
		if !ok {
			break
		}
		override[phi] = a.val(phi.Edges[idx])
	}
	// ghost loop variables step (evaluated with this iteration's values: header names resolve to current-iteration phis,
	// other names to the latest values in `from`)
	if len(ls.GhostVars) > 0 {
		envStep := a.env(st, a.entrySt)
		a.curSt = st
		envStep.lookup = a.varsAt(from, true, nil)
		newVals := map[string]Val{}
		for _, g := range ls.GhostVars {
			newVals[g.Name] = x.nameVal("g_"+g.Name, envStep.eval(g.Step))
		}
		for k, v := range newVals {
			st.gvars[k] = v
		}
	}
	a.curSt = st
	a.ghostAt(fmt.Sprintf("backedge %d", li.ord), st, cond, nil, a.varsAt(from, true, nil))
	env := a.loopEnv(li, st, override)
	for i, inv := range ls.Invariants {
		label := inv.Label
		if label == "" {
			label = fmt.Sprint(i + 1)
		}
		cs := env.conjuncts(inv.E, 0)
		for k, cj := range cs {
			l := label
			if len(cs) > 1 {
				l = fmt.Sprintf("%s.%d", label, k+1)
			}
			x.oblige(a.oname(fmt.Sprintf("loop%d:inv-keep", li.ord)), l, cond, cj.Term, pos, inv.Tags, cj.Text).setAlts(cj.Alts)
		}
	}
	if len(ls.Decreases) > 0 {
		old := variantStore[a][li]
		var now []string
		for _, d := range ls.Decreases {
			now = append(now, env.evalInt(d))
		}
		// lexicographic decrease, bounded below by 0
		var dec []string
		prefixEq := "true"
		for i := range now {
			dec = append(dec, and(prefixEq, app("<", now[i], old[i]), app(">=", old[i], "0")))
			prefixEq = and(prefixEq, eq(now[i], old[i]))
		}
		x.oblige(a.oname(fmt.Sprintf("loop%d:variant", li.ord)), "", cond, or(dec...), pos, nil, "loop variant decreases and is bounded")
	}
}

// ---------- havoc and frames ----------

func (e *Engine) scanWritesBlocks(fn *ssa.Function, blocks []*ssa.BasicBlock, ws *WriteSet) {
	// reuse scanWrites but without the function-level spec additions
	saved := e.specs
	_ = saved
	e.scanWrites2(fn, blocks, ws)
}

func (e *Engine) scanWrites2(fn *ssa.Function, blocks []*ssa.BasicBlock, ws *WriteSet) {
	tmp := &WriteSet{fields: map[string]bool{}}
	// scanWrites adds spec-level fields of fn itself; compute on a scratch set then copy
	e.scanWritesNoSpec(fn, blocks, tmp)
	for f := range tmp.fields {
		ws.fields[f] = true
	}
	ws.elems = ws.elems || tmp.elems
	ws.maps = ws.maps || tmp.maps
	ws.allocs = ws.allocs || tmp.allocs
	ws.calls = ws.calls || tmp.calls
}

func (e *Engine) scanWritesNoSpec(fn *ssa.Function, blocks []*ssa.BasicBlock, ws *WriteSet) {
	// temporarily hide fn's spec
	pkg := funcPkg(fn)
	key := funcKey(fn)
	var saved *FuncSpec
	if sf := e.specs[pkg]; sf != nil {
		saved = sf.Funcs[key]
		delete(sf.Funcs, key)
	}
	e.scanWrites(fn, blocks, ws, map[*ssa.Function]bool{})
	if saved != nil {
		e.specs[pkg].Funcs[key] = saved
	}
}

// havoc replaces every heap array that the write set may touch by a fresh one.
// If fr != nil (callee frame), locations outside it keep their value for refs allocated before (<= pre.alloc).
func (x *Exec) havoc(st *State, pre *State, ws *WriteSet, fr *FrameSpec, only func(key string) bool) {
	x.havocT(st, pre, ws, fr, nil)
}

// havocT: allocTypes (if non-nil) is the set of struct instantiations the callee may allocate; a field array whose owner
// type is neither in that set nor mentioned by the callee's frame cannot change at all.
func (x *Exec) havocT(st *State, pre *State, ws *WriteSet, fr *FrameSpec, allocTypes map[string]bool) {
	c := x.ctx
	x.havocSeen = true
	if ws.allocs {
		na := c.Fresh("alloc", "Int")
		c.Assume(app(">=", na, pre.alloc))
		st.alloc = na
	}
	havocked := map[string]bool{}
	hvOf := map[string]string{}
	for _, key := range x.heap.fieldOrder {
		bare := key[strings.LastIndex(key, ".")+1:]
		comp := ""
		if i := strings.Index(bare, "#"); i >= 0 {
			comp = bare[i+1:]
			bare = bare[:i]
		}
		if !ws.fields[bare] && !ws.fields["*"] {
			continue
		}
		if allocTypes != nil && fr != nil && fr.has && len(fr.fields[key]) == 0 {
			owner := key[:strings.LastIndex(key, ".")]
			if !allocTypes[owner] {
				continue // typed memory: the callee neither owns a frame on this array nor allocates objects of this type
			}
		}
		srt := x.heap.fieldSort[key]
		old := x.fieldArr(pre, key)
		hv := c.Fresh("HV_"+key, arrSort("Int", srt))
		allocAfter, allocPre := st.alloc, pre.alloc
		frame := fr
		// new[r] = old[r] where nothing can have been written: memory still unallocated afterwards, and memory that
		// existed before and lies outside the callee's frame; elsewhere it is arbitrary (hv)
		nw := c.DefineArrLambda("H_"+key, "Int", srt, func(r string) string {
			keep := app(">", r, allocAfter)
			if frame != nil && frame.has {
				var cs []string
				for _, f := range frame.fields[key] {
					cs = append(cs, f(r))
				}
				keep = or(keep, and(app("<=", r, allocPre), not(or(cs...))))
			}
			return ite(keep, sel(old, r), sel(hv, r))
		})
		st.fields[key] = nw
		havocked[key] = true
		hvOf[key] = hv
		x.closedness(hv, srt, x.heap.fieldType[key], st.alloc, comp)
	}
	for _, key := range x.heap.fieldOrder {
		if strings.HasSuffix(key, "#cap") {
			base := strings.TrimSuffix(key, "#cap")
			if havocked[key] {
				x.sliceFieldInv(func(k string) string {
					if h, ok := hvOf[k]; ok {
						return h
					}
					return x.fieldArr(st, k)
				}, base)
			}
		}
	}
	if ws.elems {
		var sorts []string
		for s := range x.heap.elemInit {
			sorts = append(sorts, s)
		}
		sort.Strings(sorts)
		for _, s := range sorts {
			old := x.elemsArr(pre, s)
			nw := c.Fresh("E_"+s, arrSort("Int", arrSort("Int", s)))
			st.elems[s] = nw
			if fr != nil && fr.has && !fr.allElems {
				r := c.boundVar("r")
				var cs []string
				for _, a := range fr.elems {
					cs = append(cs, eq(r, a))
				}
				c.Assume(fmt.Sprintf("(forall ((%s Int)) (! %s :pattern ((select %s %s))))", r,
					implies(and(app("<=", r, pre.alloc), not(or(cs...))), eq(sel(nw, r), sel(old, r))), nw, r))
			}
		}
	}
	if ws.maps {
		var keys []string
		for k := range x.heap.mapSorts {
			keys = append(keys, k)
		}
		sort.Strings(keys)
		frameAx := func(nw, old string) {
			if fr != nil && fr.has {
				r := c.boundVar("r")
				var cs []string
				for _, a := range fr.maps {
					cs = append(cs, eq(r, a))
				}
				c.Assume(fmt.Sprintf("(forall ((%s Int)) (! %s :pattern ((select %s %s))))", r,
					implies(and(app("<=", r, pre.alloc), not(or(cs...))), eq(sel(nw, r), sel(old, r))), nw, r))
			}
		}
		for _, k := range keys {
			ss := x.heap.mapSorts[k]
			od, ov := x.mdomArr(pre, k), x.mvalArr(pre, k)
			nd := c.Fresh("MD_"+k, arrSort("Int", arrSort(ss[0], "Bool")))
			nv := c.Fresh("MV_"+k, arrSort("Int", arrSort(ss[0], ss[1])))
			st.mdom[k], st.mval[k] = nd, nv
			frameAx(nd, od)
			frameAx(nv, ov)
		}
		ol := x.mlenArr(pre)
		nl := c.Fresh("ML", arrSort("Int", "Int"))
		c.Assume(fmt.Sprintf("(forall ((r Int)) (! (>= (select %s r) 0) :pattern ((select %s r))))", nl, nl))
		st.mlen = nl
		frameAx(nl, ol)
	}
	if ws.calls {
		nc := c.Fresh("ncall", "Int")
		c.Assume(app(">=", nc, pre.ncall))
		st.ncall = nc
		x.havocLog(st, pre)
	}
}

// assumeFrameSince: locations outside the function's own frame, allocated before entry, still hold their entry value.
func (x *Exec) assumeFrameSince(st *State, entry *State, fr *FrameSpec) {
	if fr == nil || !fr.has {
		return
	}
	c := x.ctx
	for _, key := range x.heap.fieldOrder {
		cur := x.fieldArr(st, key)
		old := x.fieldArr(entry, key)
		if cur == old {
			continue
		}
		kk := key
		srt := x.heap.fieldSort[key]
		// outside the function's own frame, memory that existed at entry still holds its entry value
		st.fields[key] = c.DefineArrLambda("H_"+key, "Int", srt, func(r string) string {
			var cs []string
			for _, f := range fr.fields[kk] {
				cs = append(cs, f(r))
			}
			return ite(and(app("<=", r, x.alloc0), not(or(cs...))), sel(old, r), sel(cur, r))
		})
	}
	for s := range x.heap.elemInit {
		cur, old := x.elemsArr(st, s), x.elemsArr(entry, s)
		if cur == old {
			continue
		}
		r := c.boundVar("r")
		var cs []string
		for _, a := range fr.elems {
			cs = append(cs, eq(r, a))
		}
		c.Assume(fmt.Sprintf("(forall ((%s Int)) (! %s :pattern ((select %s %s))))", r,
			implies(and(app("<=", r, x.alloc0), not(or(cs...))), eq(sel(cur, r), sel(old, r))), cur, r))
	}
	for k := range x.heap.mapSorts {
		for _, pair := range [][2]string{{x.mdomArr(st, k), x.mdomArr(entry, k)}, {x.mvalArr(st, k), x.mvalArr(entry, k)}} {
			if pair[0] == pair[1] {
				continue
			}
			r := c.boundVar("r")
			var cs []string
			for _, a := range fr.maps {
				cs = append(cs, eq(r, a))
			}
			c.Assume(fmt.Sprintf("(forall ((%s Int)) (! %s :pattern ((select %s %s))))", r,
				implies(and(app("<=", r, x.alloc0), not(or(cs...))), eq(sel(pair[0], r), sel(pair[1], r))), pair[0], r))
		}
	}
}

// ---------- callback call log (C14) ----------
//
// Every application of a function value appends (function, argument components) to a ghost log of length ncall.

func (x *Exec) logVal(st *State, key string, srt string) Val {
	if v, ok := st.gvars[key]; ok {
		return v
	}
	if v, ok := x.logInit[key]; ok {
		return v
	}
	v := Val{K: KScalar, Srt: srt, S: x.ctx.Fresh(sanitize(key), srt)}
	x.logInit[key] = v
	return v
}

func (x *Exec) logFun(st *State) Val { return x.logVal(st, "log:f", arrSort("Int", "Int")) }
func (x *Exec) logArgs(st *State, srt string) Val {
	return x.logVal(st, "log:arg:"+srt, arrSort("Int", arrSort("Int", srt)))
}

func (x *Exec) logAppend(st *State, f Val, args []Val) {
	c := x.ctx
	n := st.ncall
	lf := x.logFun(st)
	lf.S = c.Define("logf", lf.Srt, store(lf.S, n, f.S))
	st.gvars["log:f"] = lf
	j := 0
	for _, a := range args {
		for _, comp := range c.components(a) {
			la := x.logArgs(st, comp[0])
			la.S = c.Define("loga", la.Srt, store(la.S, n, store(sel(la.S, n), fmt.Sprint(j), comp[1])))
			st.gvars["log:arg:"+comp[0]] = la
			j++
		}
	}
	st.ncall = c.Define("ncall", "Int", app("+", n, "1"))
}

// havocLog: the log is append-only — entries below the previous length are unchanged.
func (x *Exec) havocLog(st *State, pre *State) {
	c := x.ctx
	keys := map[string]bool{"log:f": true}
	for k := range x.logInit {
		keys[k] = true
	}
	for k := range pre.gvars {
		if strings.HasPrefix(k, "log:") {
			keys[k] = true
		}
	}
	var ks []string
	for k := range keys {
		ks = append(ks, k)
	}
	sort.Strings(ks)
	for _, k := range ks {
		var old Val
		if k == "log:f" {
			old = x.logFun(pre)
		} else {
			old = x.logVal(pre, k, "")
		}
		inner := strings.TrimSuffix(strings.TrimPrefix(old.Srt, "(Array Int "), ")")
		hv := c.Fresh("loghv", old.Srt)
		nv := old
		nv.S = c.DefineArrLambda(sanitize(k), "Int", inner, func(n string) string {
			return ite(app("<", n, pre.ncall), sel(old.S, n), sel(hv, n))
		})
		st.gvars[k] = nv
	}
}

// ---------- ghost statements ----------

// anchorMatches: "after Swap#1" matches the site "after List.Swap#1" (receiver type optional).
func anchorMatches(spec, site string) bool {
	if spec == site {
		return true
	}
	sf, tf := strings.Fields(spec), strings.Fields(site)
	if len(sf) == 2 && len(tf) == 2 && sf[0] == tf[0] && (sf[0] == "after" || sf[0] == "before") {
		if i := strings.Index(tf[1], "."); i >= 0 && tf[1][i+1:] == sf[1] {
			return true
		}
	}
	return false
}

func (a *Activation) ghostAt(anchor string, st *State, rc string, results []Val, lookup func(string) (Val, bool)) {
	if a.spec == nil || a.depth > 0 {
		return
	}
	x := a.x
	c := x.ctx
	for gi, g := range a.spec.Ghost {
		if !anchorMatches(g.Anchor, anchor) {
			continue
		}
		x.anchorsHit[gi] = true
		var env *Env
		if results != nil {
			env = a.postEnv(st, results)
		} else {
			env = a.env(st, a.entrySt)
		}
		env.lookup = lookup
		cond := "true"
		if g.Cond != nil {
			cond = env.evalBool(g.Cond)
		}
		switch g.Kind {
		case "var":
			old, ok := st.gvars[g.Field]
			if !ok {
				efail("assignment to undeclared ghost variable %s", g.Field)
			}
			nv := env.eval(g.V)
			st.gvars[g.Field] = x.nameVal("g_"+g.Field, c.iteVal(cond, nv, old))
		case "assert":
			nlem := x.count("lemma@" + anchor)
			if g.Field == "" {
				f := env.evalBool(g.V)
				x.oblige("lemma", fmt.Sprintf("%s#%d", strings.ReplaceAll(anchor, " ", "-"), nlem), rc, f, a.fn.Pos(), nil, g.Text)
				c.AssumeTagged(fmt.Sprintf("lemma:%s#%d", strings.ReplaceAll(anchor, " ", "-"), nlem), implies(rc, f))
			} else {
				// strong induction on the natural number g.Field: (forall j' < j. P(j')) ==> P(j), then assume forall j >= 0. P(j)
				j := c.boundVar(g.Field)
				ch := env.child()
				ch.vars[g.Field] = intVal(j)
				pj := ch.evalBool(g.V)
				j2 := c.boundVar(g.Field)
				ch2 := env.child()
				ch2.vars[g.Field] = intVal(j2)
				pj2 := ch2.evalBool(g.V)
				ih := fmt.Sprintf("(forall ((%s Int)) (=> (and (<= 0 %s) (< %s %s)) %s))", j2, j2, j2, j, pj2)
				step := fmt.Sprintf("(forall ((%s Int)) (=> (and (<= 0 %s) %s) %s))", j, j, ih, pj)
				x.oblige("lemma", fmt.Sprintf("%s#%d:induction-step", strings.ReplaceAll(anchor, " ", "-"), nlem), rc, step, a.fn.Pos(), nil, g.Text)
				c.Assume(implies(rc, fmt.Sprintf("(forall ((%s Int)) (=> (<= 0 %s) %s))", j, j, pj)))
			}
		case "mapelem":
			obj := env.eval(g.X)
			n := namedStruct(obj.T)
			if n == nil {
				efail("ghost assignment target %s is not a struct pointer", g.Text)
			}
			gf := x.ghostField(n, g.Field)
			if gf == nil {
				efail("ghost assignment to non-ghost field %s", g.Field)
			}
			key, elem, isMap := x.ghostKey(n, gf)
			if !isMap {
				efail("ghost field %s is not a map", g.Field)
			}
			a.frameFieldIf(key, obj.S, cond, st, rc, a.fn.Pos())
			arr := x.fieldArr(st, key)
			es := c.sortOf(elem)
			k := env.eval(g.Idx).S
			v := env.eval(g.V)
			row := sel(arr, obj.S)
			st.fields[key] = c.Define("H_"+key, arrSort("Int", arrSort(c.sortOf(x.ghostKeyType(n, gf)), es)), store(arr, obj.S, ite(cond, store(row, k, v.S), row)))
		case "field":
			obj := env.eval(g.X)
			n := namedStruct(obj.T)
			if n == nil {
				efail("ghost assignment target %s is not a struct pointer", g.Text)
			}
			gf := x.ghostField(n, g.Field)
			if gf == nil {
				efail("ghost assignment to non-ghost field %s", g.Field)
			}
			key, elem, isMap := x.ghostKey(n, gf)
			a.frameFieldIf(key, obj.S, cond, st, rc, a.fn.Pos())
			arr := x.fieldArr(st, key)
			var nv string
			if isMap {
				v := env.eval(g.V)
				es := c.sortOf(elem)
				var rowT string
				if v.K == KLambda {
					// new row defined pointwise
					kt := x.ghostKeyType(n, gf)
					ks := c.sortOf(kt)
					row := c.Fresh("grow", arrSort(ks, es))
					i := c.boundVar("i")
					ch := v.Lam.Env.child()
					ch.vars[v.Lam.Vars[0].Name] = scalar(kt, i)
					body := ch.eval(v.Lam.Body)
					c.Assume(fmt.Sprintf("(forall ((%s %s)) (! (= (select %s %s) %s) :pattern ((select %s %s))))", i, ks, row, i, body.S, row, i))
					rowT = row
				} else if v.K == KMapView && v.Map == nil {
					rowT = v.S
				} else {
					efail("ghost map assignment needs a lambda or another ghost map")
				}
				nv = store(arr, obj.S, ite(cond, rowT, sel(arr, obj.S)))
				st.fields[key] = c.Define("H_"+key, arrSort("Int", arrSort(c.sortOf(x.ghostKeyType(n, gf)), es)), nv)
			} else {
				v := env.eval(g.V)
				es := c.sortOf(elem)
				nv = store(arr, obj.S, ite(cond, v.S, sel(arr, obj.S)))
				st.fields[key] = c.Define("H_"+key, arrSort("Int", es), nv)
			}
		case "bulk":
			// all Owner.field := \x. expr   (pointwise redefinition over every object)
			lam := env.eval(g.V)
			if lam.K != KLambda {
				efail("bulk ghost assignment needs a lambda")
			}
			b := lam.Lam.Vars[0]
			if b.Like == nil {
				efail("bulk ghost assignment: binder needs 'like'")
			}
			lv := lam.Lam.Env.eval(b.Like)
			n := namedStruct(lv.T)
			gf := x.ghostField(n, g.Field)
			if gf == nil {
				efail("bulk ghost assignment to non-ghost field %s", g.Field)
			}
			key, elem, isMap := x.ghostKey(n, gf)
			if isMap {
				efail("bulk assignment to ghost map field unsupported")
			}
			es := c.sortOf(elem)
			old := x.fieldArr(st, key)
			nw := c.Fresh("H_"+key, arrSort("Int", es))
			r := c.boundVar("r")
			ch := lam.Lam.Env.child()
			ch.vars[b.Name] = scalar(lv.T, r)
			body := ch.eval(lam.Lam.Body)
			c.Assume(fmt.Sprintf("(forall ((%s Int)) (! (= (select %s %s) %s) :pattern ((select %s %s))))", r, nw, r, ite(cond, body.S, sel(old, r)), nw, r))
			st.fields[key] = nw
			if x.frame.has {
				r2 := c.boundVar("r")
				ch2 := lam.Lam.Env.child()
				ch2.vars[b.Name] = scalar(lv.T, r2)
				body2 := ch2.eval(lam.Lam.Body)
				goal := fmt.Sprintf("(forall ((%s Int)) %s)", r2, implies(and(cond, not(eq(body2.S, sel(old, r2)))), x.frame.allowsField(key, r2, x.alloc0)))
				x.oblige(a.oname("frame"), "ghost-bulk", rc, goal, a.fn.Pos(), nil, "bulk ghost update of "+key+" stays inside the modifies clause")
			}
		}
	}
}
