package main

// Symbolic heap state: one SMT array per (struct instantiation, field), element heaps per sort,
// Go-map heaps per (key sort, value sort), allocation counter, local cells.

import (
	"fmt"
	"go/types"
	"sort"
	"strings"

	"golang.org/x/tools/go/ssa"
)

type State struct {
	fields map[string]string // field key -> array term (Array Int sort)
	elems  map[string]string // elem sort -> (Array Int (Array Int sort))
	mdom   map[string]string // "K|V" -> (Array Int (Array K Bool))
	mval   map[string]string // "K|V" -> (Array Int (Array K V))
	mlen   string            // (Array Int Int)
	alloc  string
	locals map[*ssa.Alloc]Val
	gvars  map[string]Val // ghost loop variables
	ncall  string         // ghost counter of comparator/callback applications (C07)
}

func (s *State) clone() *State {
	n := &State{fields: map[string]string{}, elems: map[string]string{}, mdom: map[string]string{}, mval: map[string]string{},
		mlen: s.mlen, alloc: s.alloc, locals: map[*ssa.Alloc]Val{}, gvars: map[string]Val{}, ncall: s.ncall}
	for k, v := range s.fields {
		n.fields[k] = v
	}
	for k, v := range s.elems {
		n.elems[k] = v
	}
	for k, v := range s.mdom {
		n.mdom[k] = v
	}
	for k, v := range s.mval {
		n.mval[k] = v
	}
	for k, v := range s.locals {
		n.locals[k] = v
	}
	for k, v := range s.gvars {
		n.gvars[k] = v
	}
	return n
}

// heapInfo is the per-verification registry of heap arrays (initial names, sorts).
type heapInfo struct {
	fieldSort  map[string]string     // field key -> element sort
	fieldInit  map[string]string     // field key -> initial array
	fieldType  map[string]types.Type // element Go type (nil for slice components)
	fieldOrig  map[string]string     // field key -> origin key "pkgpath.Type.field"
	elemInit   map[string]string
	mdomInit   map[string]string
	mvalInit   map[string]string
	mapSorts   map[string][2]string
	mlenInit   string
	fieldOrder []string
}

func newHeapInfo() *heapInfo {
	return &heapInfo{fieldSort: map[string]string{}, fieldInit: map[string]string{}, fieldType: map[string]types.Type{},
		fieldOrig: map[string]string{}, elemInit: map[string]string{}, mdomInit: map[string]string{}, mvalInit: map[string]string{},
		mapSorts: map[string][2]string{}}
}

// fieldKey: "<instantiated type>.<field>[#comp]"
func fieldKeyOf(owner *types.Named, field string) string {
	return typeStr(owner) + "." + field
}

// registerField makes sure the field array exists; returns key.
func (x *Exec) registerField(owner *types.Named, field string, comp string, sort string, elemT types.Type) string {
	key := fieldKeyOf(owner, field)
	if comp != "" {
		key += "#" + comp
	}
	h := x.heap
	if _, ok := h.fieldSort[key]; !ok {
		h.fieldSort[key] = sort
		h.fieldType[key] = elemT
		h.fieldOrig[key] = originKey(owner) + "." + field
		name := x.ctx.Fresh("H_"+key, arrSort("Int", sort))
		h.fieldInit[key] = name
		h.fieldOrder = append(h.fieldOrder, key)
		x.closedness(name, sort, elemT, x.alloc0, comp)
		if comp == "cap" {
			x.sliceFieldInv(func(k string) string { return h.fieldInit[k] }, strings.TrimSuffix(key, "#cap"))
		}
		x.recordKey(preregKey{kind: "field", owner: owner, field: field, comp: comp, sort: sort, elemT: elemT})
	}
	return key
}

// sliceFieldInv: the four components stored for a slice-typed field always form a well-formed slice header.
func (x *Exec) sliceFieldInv(get func(key string) string, base string) {
	arr, off, ln, cp := get(base+"#arr"), get(base+"#off"), get(base+"#len"), get(base+"#cap")
	if arr == "" || off == "" || ln == "" || cp == "" {
		return
	}
	x.ctx.Assume(fmt.Sprintf("(forall ((r Int)) (! (and (<= 0 (select %s r)) (<= 0 (select %s r)) (<= (select %s r) (select %s r)) (<= (select %s r) 1099511627776) (=> (= (select %s r) 0) (and (= (select %s r) 0) (= (select %s r) 0)))) :pattern ((select %s r)) :pattern ((select %s r)) :pattern ((select %s r))))",
		off, ln, ln, cp, cp, arr, cp, off, ln, cp, off))
}

// elemClosedInit (typed memory, Go type safety): in the entry state every element of a slice-typed field whose elements
// are pointers is nil or an allocated object. Emitted once per field, for the initial arrays only.
func (x *Exec) elemClosedInit(owner *types.Named, fname string, et types.Type) {
	if !isRefLike(et) || isTypeParam(et) || x.alloc0 == "" || x.ctx.sortOf(et) != "Int" {
		return
	}
	base := fieldKeyOf(owner, fname)
	if x.elemClosedDone == nil {
		x.elemClosedDone = map[string]bool{}
	}
	if x.elemClosedDone[base] {
		return
	}
	x.elemClosedDone[base] = true
	for _, c := range []string{"arr", "off", "len", "cap"} {
		x.registerField(owner, fname, c, "Int", nil)
	}
	h := x.heap
	arr, off, ln := h.fieldInit[base+"#arr"], h.fieldInit[base+"#off"], h.fieldInit[base+"#len"]
	e := x.elemsArr(&State{fields: map[string]string{}, elems: map[string]string{}}, "Int")
	el := fmt.Sprintf("(select (select %s (select %s r)) %s)", e, arr, x.eidx(fmt.Sprintf("(select %s r)", off), "i"))
	x.ctx.Assume(fmt.Sprintf("(forall ((r Int) (i Int)) (! (=> (and (<= 0 i) (< i (select %s r))) (and (<= 0 %s) (<= %s %s))) :pattern (%s)))", ln, el, el, x.alloc0, el))
}

// closedness: every reference stored in the heap points to an allocated object.
func (x *Exec) closedness(arr string, sort string, elemT types.Type, alloc string, comp string) {
	if alloc == "" {
		return
	}
	isGhostRef := func(t types.Type) bool {
		b, ok := t.(*types.Basic)
		return ok && b.Kind() == types.UnsafePointer
	}
	refLike := comp == "arr" || (comp == "" && elemT != nil && (isRefLike(elemT) || isGhostRef(elemT)))
	if refLike && sort == "Int" {
		x.ctx.Assume(fmt.Sprintf("(forall ((r Int)) (! (and (<= 0 (select %s r)) (<= (select %s r) %s)) :pattern ((select %s r))))", arr, arr, alloc, arr))
	}
	if comp == "ghostmap" && sort == arrSort("Int", "Int") && elemT != nil && isRefLike(elemT) {
		x.ctx.Assume(fmt.Sprintf("(forall ((r Int) (i Int)) (! (and (<= 0 (select (select %s r) i)) (<= (select (select %s r) i) %s)) :pattern ((select (select %s r) i))))", arr, arr, alloc, arr))
	}
}

func (x *Exec) fieldArr(st *State, key string) string {
	if a, ok := st.fields[key]; ok {
		return a
	}
	return x.heap.fieldInit[key]
}

func (x *Exec) elemsArr(st *State, sort string) string {
	if a, ok := st.elems[sort]; ok {
		return a
	}
	if a, ok := x.heap.elemInit[sort]; ok {
		return a
	}
	a := x.ctx.Fresh("E_"+sort, arrSort("Int", arrSort("Int", sort)))
	x.heap.elemInit[sort] = a
	x.recordKey(preregKey{kind: "elem", sort: sort})
	return a
}

func (x *Exec) mapKey(ks, vs string) string {
	k := ks + "|" + vs
	if _, ok := x.heap.mapSorts[k]; !ok {
		x.heap.mapSorts[k] = [2]string{ks, vs}
		x.heap.mdomInit[k] = x.ctx.Fresh("MD_"+k, arrSort("Int", arrSort(ks, "Bool")))
		x.heap.mvalInit[k] = x.ctx.Fresh("MV_"+k, arrSort("Int", arrSort(ks, vs)))
		x.recordKey(preregKey{kind: "map", ks: ks, vs: vs})
	}
	return k
}
func (x *Exec) mdomArr(st *State, k string) string {
	if a, ok := st.mdom[k]; ok {
		return a
	}
	return x.heap.mdomInit[k]
}
func (x *Exec) mvalArr(st *State, k string) string {
	if a, ok := st.mval[k]; ok {
		return a
	}
	return x.heap.mvalInit[k]
}
func (x *Exec) mlenArr(st *State) string {
	if st.mlen != "" {
		return st.mlen
	}
	if x.heap.mlenInit == "" {
		x.heap.mlenInit = x.ctx.Fresh("ML", arrSort("Int", "Int"))
		x.ctx.Assume(fmt.Sprintf("(forall ((r Int)) (! (>= (select %s r) 0) :pattern ((select %s r))))", x.heap.mlenInit, x.heap.mlenInit))
	}
	return x.heap.mlenInit
}

// mergeStates builds the ite-merge of several (cond, state) pairs.
func (x *Exec) mergeStates(conds []string, sts []*State) *State {
	if len(sts) == 1 {
		return sts[0].clone()
	}
	out := sts[0].clone()
	mergeMap := func(get func(*State) map[string]string, def func(*State, string) string, srt func(string) string, set func(*State, string, string)) {
		keys := map[string]bool{}
		for _, s := range sts {
			for k := range get(s) {
				keys[k] = true
			}
		}
		var ks []string
		for k := range keys {
			ks = append(ks, k)
		}
		sort.Strings(ks)
		for _, k := range ks {
			vals := make([]string, len(sts))
			same := true
			for i, s := range sts {
				vals[i] = def(s, k)
				if vals[i] != vals[0] {
					same = false
				}
			}
			if same {
				set(out, k, vals[0])
				continue
			}
			t := vals[len(vals)-1]
			for i := len(vals) - 2; i >= 0; i-- {
				t = ite(conds[i], vals[i], t)
			}
			set(out, k, x.ctx.Define("M_"+k, srt(k), t))
		}
	}
	mergeMap(func(s *State) map[string]string { return s.fields }, func(s *State, k string) string { return x.fieldArr(s, k) },
		func(k string) string { return arrSort("Int", x.heap.fieldSort[k]) }, func(s *State, k, v string) { s.fields[k] = v })
	mergeMap(func(s *State) map[string]string { return s.elems }, func(s *State, k string) string { return x.elemsArr(s, k) },
		func(k string) string { return arrSort("Int", arrSort("Int", k)) }, func(s *State, k, v string) { s.elems[k] = v })
	mergeMap(func(s *State) map[string]string { return s.mdom }, func(s *State, k string) string { return x.mdomArr(s, k) },
		func(k string) string { return arrSort("Int", arrSort(x.heap.mapSorts[k][0], "Bool")) }, func(s *State, k, v string) { s.mdom[k] = v })
	mergeMap(func(s *State) map[string]string { return s.mval }, func(s *State, k string) string { return x.mvalArr(s, k) },
		func(k string) string { return arrSort("Int", arrSort(x.heap.mapSorts[k][0], x.heap.mapSorts[k][1])) }, func(s *State, k, v string) { s.mval[k] = v })
	// scalars
	mergeScalar := func(get func(*State) string, sort string, name string) string {
		vals := make([]string, len(sts))
		same := true
		for i, s := range sts {
			vals[i] = get(s)
			if vals[i] != vals[0] {
				same = false
			}
		}
		if same {
			return vals[0]
		}
		t := vals[len(vals)-1]
		for i := len(vals) - 2; i >= 0; i-- {
			t = ite(conds[i], vals[i], t)
		}
		return x.ctx.Define(name, sort, t)
	}
	out.alloc = mergeScalar(func(s *State) string { return s.alloc }, "Int", "alloc")
	out.ncall = mergeScalar(func(s *State) string { return s.ncall }, "Int", "ncall")
	anyMlen := false
	for _, s := range sts {
		if s.mlen != "" {
			anyMlen = true
		}
	}
	if anyMlen {
		out.mlen = mergeScalar(func(s *State) string { return x.mlenArr(s) }, arrSort("Int", "Int"), "ML")
	}
	// locals and ghost vars
	lkeys := map[*ssa.Alloc]bool{}
	for _, s := range sts {
		for k := range s.locals {
			lkeys[k] = true
		}
	}
	for k := range lkeys {
		var v Val
		have := false
		ok := true
		for i := len(sts) - 1; i >= 0; i-- {
			lv, present := sts[i].locals[k]
			if !present {
				ok = false
				break
			}
			if !have {
				v, have = lv, true
			} else {
				v = x.nameVal("L", x.ctx.iteVal(conds[i], lv, v))
			}
		}
		if ok {
			out.locals[k] = v
		} else {
			delete(out.locals, k)
		}
	}
	gkeys := map[string]bool{}
	for _, s := range sts {
		for k := range s.gvars {
			gkeys[k] = true
		}
	}
	// the callback log exists in every state (initial arrays where a path has not touched it)
	for k := range gkeys {
		if strings.HasPrefix(k, "log:") {
			for _, s := range sts {
				if _, ok := s.gvars[k]; !ok {
					s.gvars[k] = x.logVal(s, k, "")
				}
			}
		}
	}
	for k := range gkeys {
		var v Val
		have := false
		ok := true
		for i := len(sts) - 1; i >= 0; i-- {
			gv, present := sts[i].gvars[k]
			if !present {
				ok = false
				break
			}
			if !have {
				v, have = gv, true
			} else {
				v = x.nameVal("G", x.ctx.iteVal(conds[i], gv, v))
			}
		}
		if ok {
			out.gvars[k] = v
		} else {
			delete(out.gvars, k)
		}
	}
	return out
}

// nameVal gives names to all components of a value (keeps terms small).
func (x *Exec) nameVal(prefix string, v Val) Val {
	switch v.K {
	case KMapView:
		if v.Map != nil {
			return v
		}
		fallthrough
	case KScalar, KUnit, KArray, KSlice, KStruct, KTuple, KArrPtr:
		cs := x.ctx.components(v)
		ts := make([]string, len(cs))
		for i, c := range cs {
			ts[i] = x.ctx.Define(prefix, c[0], c[1])
		}
		w, _ := rebuild(v, ts)
		return w
	}
	return v
}

// object layout: by-value struct fields live in sub-objects at ref+offset.
func objSize(t types.Type) int {
	st, ok := t.Underlying().(*types.Struct)
	if !ok {
		return 1
	}
	n := 1
	for i := 0; i < st.NumFields(); i++ {
		ft := st.Field(i).Type()
		if _, isS := ft.Underlying().(*types.Struct); isS && !isUnitType(ft) {
			n += objSize(ft)
		}
	}
	return n
}

func subOffset(t types.Type, field int) int {
	st := t.Underlying().(*types.Struct)
	off := 1
	for i := 0; i < field; i++ {
		ft := st.Field(i).Type()
		if _, isS := ft.Underlying().(*types.Struct); isS && !isUnitType(ft) {
			off += objSize(ft)
		}
	}
	return off
}

func isEmbeddedStructField(ft types.Type) bool {
	if _, ok := types.Unalias(ft).(*types.TypeParam); ok {
		return false
	}
	_, isS := ft.Underlying().(*types.Struct)
	return isS && !isUnitType(ft)
}

func add(a string, n int) string {
	if n == 0 {
		return a
	}
	return fmt.Sprintf("(+ %s %d)", a, n)
}

// ---------- field access ----------

// loadField reads field i of the object ref (of resolved named struct type owner) in state st.
func (x *Exec) loadField(st *State, owner *types.Named, ref string, i int) Val {
	stt := owner.Underlying().(*types.Struct)
	f := stt.Field(i)
	ft := f.Type()
	return x.loadFieldT(st, owner, ref, f.Name(), ft, subOffset(owner, i))
}

func (x *Exec) loadFieldT(st *State, owner *types.Named, ref string, fname string, ft types.Type, suboff int) Val {
	ft = types.Unalias(ft)
	if _, isTP := ft.(*types.TypeParam); !isTP {
		switch u := ft.Underlying().(type) {
		case *types.Slice:
			v := Val{K: KSlice, T: ft}
			x.elemClosedInit(owner, fname, u.Elem())
			for _, c := range []string{"arr", "off", "len", "cap"} {
				key := x.registerField(owner, fname, c, "Int", nil)
				t := sel(x.fieldArr(st, key), ref)
				switch c {
				case "arr":
					v.Arr = t
				case "off":
					v.Off = t
				case "len":
					v.Len = t
				case "cap":
					v.Cap = t
				}
			}
			return v
		case *types.Struct:
			if u.NumFields() == 0 {
				return x.ctx.zero(ft)
			}
			sub := add(ref, suboff)
			return x.loadStruct(st, ft, sub)
		}
	}
	key := x.registerField(owner, fname, "", x.ctx.sortOf(ft), ft)
	v := scalar(ft, sel(x.fieldArr(st, key), ref))
	if _, ok := ft.Underlying().(*types.Array); ok && !isTypeParam(ft) {
		v.K = KArray
		v.N = ft.Underlying().(*types.Array).Len()
	}
	return v
}

func isTypeParam(t types.Type) bool {
	_, ok := types.Unalias(t).(*types.TypeParam)
	return ok
}

func (x *Exec) loadStruct(st *State, t types.Type, ref string) Val {
	n, _ := types.Unalias(t).(*types.Named)
	if n == nil {
		panic(fmt.Errorf("loadStruct: anonymous struct type %s unsupported", typeStr(t)))
	}
	stt := n.Underlying().(*types.Struct)
	v := Val{K: KStruct, T: t}
	for i := 0; i < stt.NumFields(); i++ {
		v.Fs = append(v.Fs, x.loadField(st, n, ref, i))
	}
	return v
}

func (x *Exec) storeField(st *State, owner *types.Named, ref string, i int, v Val) {
	stt := owner.Underlying().(*types.Struct)
	f := stt.Field(i)
	ft := types.Unalias(f.Type())
	if _, isTP := ft.(*types.TypeParam); !isTP {
		switch u := ft.Underlying().(type) {
		case *types.Slice:
			comps := map[string]string{"arr": v.Arr, "off": v.Off, "len": v.Len, "cap": v.Cap}
			for _, c := range []string{"arr", "off", "len", "cap"} {
				key := x.registerField(owner, f.Name(), c, "Int", nil)
				st.fields[key] = x.ctx.Define("H_"+key, arrSort("Int", "Int"), store(x.fieldArr(st, key), ref, comps[c]))
			}
			return
		case *types.Struct:
			if u.NumFields() == 0 {
				return
			}
			x.storeStruct(st, ft, add(ref, subOffset(owner, i)), v)
			return
		}
	}
	srt := x.ctx.sortOf(ft)
	key := x.registerField(owner, f.Name(), "", srt, ft)
	st.fields[key] = x.ctx.Define("H_"+key, arrSort("Int", srt), store(x.fieldArr(st, key), ref, v.S))
}

func (x *Exec) storeStruct(st *State, t types.Type, ref string, v Val) {
	n := types.Unalias(t).(*types.Named)
	stt := n.Underlying().(*types.Struct)
	if v.K != KStruct || len(v.Fs) != stt.NumFields() {
		panic(fmt.Errorf("storeStruct: value shape mismatch for %s", typeStr(t)))
	}
	for i := 0; i < stt.NumFields(); i++ {
		x.storeField(st, n, ref, i, v.Fs[i])
	}
}

// ---------- ghost fields ----------

type ghostFieldInfo struct {
	GhostField
	ownerOrigin string
}

// loadGhost reads a ghost field; returns ok=false when the struct has no such ghost field.
func (x *Exec) ghostField(owner *types.Named, name string) *GhostField {
	return x.eng.ghosts[originKey(owner)+"."+name]
}

// ghostKeyType: key type of a ghost map field ("map T" is keyed by int, "mapfrom F T" by the key type of Go-map field F).
func (x *Exec) ghostKeyType(owner *types.Named, g *GhostField) types.Type {
	spec := strings.TrimSpace(g.Type)
	if strings.HasPrefix(spec, "mapfrom ") {
		fs := strings.Fields(spec)
		i := fieldIndex(owner, fs[1])
		if i < 0 {
			panic(fmt.Errorf("ghost field %s.%s: no real field %s", g.Owner, g.Name, fs[1]))
		}
		switch ft := structFieldType(owner, i).Underlying().(type) {
		case *types.Map:
			return ft.Key()
		case *types.Signature:
			// a comparator field: keys have the type of its first parameter
			return ft.Params().At(0).Type()
		}
		panic(fmt.Errorf("ghost field %s.%s: %s is neither a Go map nor a function", g.Owner, g.Name, fs[1]))
	}
	return types.Typ[types.Int]
}

func (x *Exec) ghostType(owner *types.Named, g *GhostField) (elem types.Type, isMap bool) {
	spec := strings.TrimSpace(g.Type)
	if strings.HasPrefix(spec, "map ") {
		isMap = true
		spec = strings.TrimSpace(spec[4:])
	} else if strings.HasPrefix(spec, "mapfrom ") {
		isMap = true
		fs := strings.Fields(spec)
		spec = strings.Join(fs[2:], " ")
	}
	switch {
	case spec == "int":
		elem = types.Typ[types.Int]
	case spec == "bool":
		elem = types.Typ[types.Bool]
	case spec == "ref":
		// an untyped object reference (only compared for equality)
		elem = types.Typ[types.UnsafePointer]
	case strings.HasPrefix(spec, "ptr "):
		// pointer to another generic struct of the same package, instantiated with the owner's type arguments
		name := strings.TrimSpace(spec[4:])
		obj := owner.Obj().Pkg().Scope().Lookup(name)
		tn, ok := obj.(*types.TypeName)
		if !ok {
			panic(fmt.Errorf("ghost field %s.%s: no type %s", g.Owner, g.Name, name))
		}
		target := tn.Type()
		if gn, isN := target.(*types.Named); isN && gn.TypeParams().Len() > 0 {
			var args []types.Type
			for i := 0; i < owner.TypeArgs().Len(); i++ {
				args = append(args, owner.TypeArgs().At(i))
			}
			if len(args) == 0 {
				// the owner is the generic type itself: use its own type parameters
				for i := 0; i < owner.TypeParams().Len(); i++ {
					args = append(args, owner.TypeParams().At(i))
				}
			}
			inst, err := types.Instantiate(nil, gn, args, false)
			if err != nil {
				panic(fmt.Errorf("ghost field %s.%s: %v", g.Owner, g.Name, err))
			}
			target = inst
		}
		elem = types.NewPointer(target)
	case strings.HasPrefix(spec, "like "):
		fn := strings.TrimSpace(spec[5:])
		i := fieldIndex(owner, fn)
		if i < 0 {
			panic(fmt.Errorf("ghost field %s.%s: no real field %s", g.Owner, g.Name, fn))
		}
		elem = structFieldType(owner, i)
	default:
		panic(fmt.Errorf("ghost field %s.%s: bad type %q", g.Owner, g.Name, g.Type))
	}
	return
}

func (x *Exec) ghostKey(owner *types.Named, g *GhostField) (key string, elem types.Type, isMap bool) {
	elem, isMap = x.ghostType(owner, g)
	es := x.ctx.sortOf(elem)
	if isMap {
		ks := x.ctx.sortOf(x.ghostKeyType(owner, g))
		key = x.registerField(owner, g.Name, "ghostmap", arrSort(ks, es), elem)
	} else {
		key = x.registerField(owner, g.Name, "", es, elem)
		// ghost fields of objects that do not exist yet hold their zero value (they are initialised at allocation)
		mark := "ghostzero:" + key
		if _, done := x.ctx.funs[mark]; !done && x.alloc0 != "" {
			x.ctx.funs[mark] = "axiom"
			init := x.heap.fieldInit[key]
			x.ctx.Assume(fmt.Sprintf("(forall ((r Int)) (! (=> (> r %s) (= (select %s r) %s)) :pattern ((select %s r))))", x.alloc0, init, x.ctx.zero(elem).S, init))
		}
	}
	return
}
