package main

// `govc check -property Cxx`: the registered check of one property.

import (
	"bufio"
	"encoding/json"
	"flag"
	"fmt"
	"os"
	"path/filepath"
	"runtime"
	"sort"
	"strconv"
	"strings"
	"time"
)

type knownFinding struct {
	Kind       string // "finding" | "fixed"
	Property   string
	Obligation string
	Text       string
}

func readKnownFindings(path string) []knownFinding {
	f, err := os.Open(path)
	if err != nil {
		return nil
	}
	defer f.Close()
	var out []knownFinding
	sc := bufio.NewScanner(f)
	for sc.Scan() {
		line := strings.TrimSpace(sc.Text())
		if line == "" || strings.HasPrefix(line, "#") {
			continue
		}
		var k knownFinding
		switch {
		case strings.HasPrefix(line, "finding:"):
			k.Kind = "finding"
			line = strings.TrimSpace(line[len("finding:"):])
		case strings.HasPrefix(line, "fixed:"):
			k.Kind = "fixed"
			line = strings.TrimSpace(line[len("fixed:"):])
		default:
			continue
		}
		if i := strings.Index(line, "::"); i >= 0 {
			k.Text = strings.TrimSpace(line[i+2:])
			line = line[:i]
		}
		for _, f := range strings.Fields(line) {
			if strings.HasPrefix(f, "property=") {
				k.Property = f[len("property="):]
			}
			if strings.HasPrefix(f, "obligation=") {
				k.Obligation = f[len("obligation="):]
			}
		}
		out = append(out, k)
	}
	return out
}

func hasProp(props []string, p string) bool {
	for _, q := range props {
		if q == p {
			return true
		}
	}
	return false
}

type funcReport struct {
	Name        string   `json:"name"`
	Level       string   `json:"level"`
	Obligations int      `json:"obligations"`
	Discharged  int      `json:"discharged"`
	Role        string   `json:"role"` // "tagged" | "callee-contract-used"
	Notes       []string `json:"notes,omitempty"`
}

func verifDir() string {
	if d := os.Getenv("GOVC_VERIF"); d != "" {
		return d
	}
	return "/verif"
}

func cmdCheck(args []string) {
	fs := flag.NewFlagSet("check", flag.ExitOnError)
	prop := fs.String("property", "", "property id")
	tier := fs.String("tier", "", "quick|thorough")
	fs.Parse(args)
	if *prop == "" {
		usage()
	}
	if *tier == "" {
		*tier = os.Getenv("VERIF_TIER")
	}
	if *tier == "" {
		*tier = "quick"
	}
	seed := 0
	if s := os.Getenv("VERIF_SEED"); s != "" {
		seed, _ = strconv.Atoi(s)
	}
	t0 := time.Now()
	timeout := 15000
	if *tier == "thorough" {
		timeout = 90000
	}
	vd := verifDir()
	e, err := LoadEngine(repoDir())
	if err != nil {
		// the tree does not load (does not compile, or a contract file does not parse)
		fmt.Fprintln(os.Stderr, "load:", err)
		os.Exit(2)
	}
	tmp, _ := os.MkdirTemp("", "govc")
	defer os.RemoveAll(tmp)

	// 1. root functions: contracts tagged with the property
	var keys []string
	for k := range e.funcs {
		keys = append(keys, k)
	}
	sort.Strings(keys)
	role := map[string]string{}
	var work []string
	var preTrusted []string
	for _, k := range keys {
		spec := e.specFor(e.funcs[k])
		if spec != nil && spec.Trusted && hasProp(spec.Props, *prop) {
			preTrusted = append(preTrusted, k) // a tagged function whose contract is assumed: listed, never verified
		}
		if spec != nil && spec.ThoroughOnly && *tier != "thorough" && hasProp(spec.Props, *prop) {
			preTrusted = append(preTrusted, k+" (assumed in the quick tier; verified in the thorough tier)")
		}
		if spec == nil || spec.Inline || spec.Trusted {
			continue
		}
		if spec.ThoroughOnly && *tier != "thorough" {
			continue
		}
		if hasProp(spec.Props, *prop) {
			role[k] = "tagged"
			work = append(work, k)
		}
	}
	var all []*Obligation
	var reports []*funcReport
	repByName := map[string]*funcReport{}
	var undecided []string
	var unbound []*Obligation
	assumed := map[string]bool{}
	notes := map[string]bool{}
	inlinedAll := map[string]bool{}
	trusted := map[string]bool{}
	for _, k := range preTrusted {
		trusted[k] = true
	}
	for len(work) > 0 {
		k := work[0]
		work = work[1:]
		fn := e.funcs[k]
		ctx, x, err := e.VerifyFunction(fn)
		rep := &funcReport{Name: k, Level: "U", Role: role[k]}
		reports = append(reports, rep)
		repByName[k] = rep
		if err != nil {
			// The contract can no longer be bound to the code, or the code left the verified subset: every obligation of
			// this function was discharged on the unchanged tree and none can be re-established now. Reported as the
			// failed obligation <func>:contract-binding (no solver verdict, hence no-failing-input-found).
			rep.Level = "unbound"
			rep.Notes = append(rep.Notes, err.Error())
			o := &Obligation{Name: k + ":contract-binding", Func: k, Kind: "contract-binding", Guard: "true", Goal: "false", Ctx: NewCtx(k),
				Result: "unbound", Text: "the contract of " + k + " no longer binds to / covers the code: " + err.Error(), Pos: e.posOf(fn.Pos())}
			unbound = append(unbound, o)
			continue
		}
		for _, o := range ctx.obls {
			// tagged clauses belong to their properties only, unless the function's contract is relied upon by a caller
			if len(o.Props) > 0 && !hasProp(o.Props, *prop) && role[k] == "tagged" {
				continue
			}
			all = append(all, o)
		}
		for n := range x.externals {
			assumed[n] = true
		}
		for _, n := range x.notes {
			notes[n] = true
		}
		for n := range x.inlined {
			inlinedAll[n] = true
		}
		for callee := range x.usedSpecs {
			cs := e.specFor(e.funcs[callee])
			if cs != nil && cs.Trusted {
				trusted[callee] = true
				continue
			}
			if cs != nil && cs.ThoroughOnly && *tier != "thorough" {
				trusted[callee+" (assumed in the quick tier; verified in the thorough tier)"] = true
				continue
			}
			if cur, seen := role[callee]; !seen {
				role[callee] = "callee-contract-used"
				work = append(work, callee)
			} else if cur == "tagged" {
				// already verified as tagged: its other-property posts were skipped; re-verify fully if needed
				role[callee] = "tagged+used"
			}
		}
	}
	// functions first verified as "tagged" and later found to be relied upon: add their skipped clauses
	for _, rep := range reports {
		if role[rep.Name] == "tagged+used" {
			ctx, _, err := e.VerifyFunction(e.funcs[rep.Name])
			if err != nil {
				continue
			}
			have := map[string]bool{}
			for _, o := range all {
				have[o.Name] = true
			}
			for _, o := range ctx.obls {
				if !have[o.Name] {
					all = append(all, o)
				}
			}
			rep.Role = "tagged+callee-contract-used"
		}
	}
	// 2. invariant providers. A property over all histories follows by induction only if every operation of the same
	// container re-establishes the representation invariant that the tagged functions require — whichever property its
	// own postconditions are tagged with. So every other contract function of a package that has a tagged function is
	// verified too, and contributes: its safety, frame, loop, lemma and call-site obligations, its postconditions whose
	// outermost predicate is one the tagged functions require (Inv, ItInv, ...), and clauses tagged with this property.
	invPreds := map[string]bool{}
	rootPkgs := map[string]bool{}
	for k, r := range role {
		if !strings.HasPrefix(r, "tagged") {
			continue
		}
		rootPkgs[pkgOfKey(k)] = true
		if sp := e.specFor(e.funcs[k]); sp != nil {
			for _, rq := range sp.Requires {
				for _, n := range topPredNames(rq.E) {
					invPreds[n] = true
				}
			}
		}
	}
	isInvPost := func(o *Obligation) bool {
		for n := range invPreds {
			if strings.HasPrefix(o.Text, n+"(") {
				return true
			}
		}
		return false
	}
	if os.Getenv("GOVC_NO_PROVIDERS") == "" {
		for _, k := range keys {
			if _, seen := role[k]; seen || !rootPkgs[pkgOfKey(k)] {
				continue
			}
			spec := e.specFor(e.funcs[k])
			if spec == nil || spec.Inline || spec.Trusted {
				continue
			}
			if spec.ThoroughOnly && *tier != "thorough" {
				trusted[k+" (assumed in the quick tier; verified in the thorough tier)"] = true
				continue
			}
			role[k] = "invariant-provider"
			ctx, x, err := e.VerifyFunction(e.funcs[k])
			rep := &funcReport{Name: k, Level: "U", Role: role[k]}
			reports = append(reports, rep)
			repByName[k] = rep
			if err != nil {
				// a provider that cannot be verified is an unchecked assumption of this property's induction (it is reported
				// as a violation under the properties its own clauses are tagged with)
				rep.Level = "unbound"
				rep.Notes = append(rep.Notes, err.Error())
				notes["invariant provider not verified (outside the subset or contract no longer binds): "+k] = true
				continue
			}
			for _, o := range ctx.obls {
				if o.Kind == "post" && !isInvPost(o) && !(len(o.Props) > 0 && hasProp(o.Props, *prop)) {
					continue
				}
				all = append(all, o)
			}
			for n := range x.externals {
				assumed[n] = true
			}
			for _, n := range x.notes {
				notes[n] = true
			}
			for callee := range x.usedSpecs {
				if cs := e.specFor(e.funcs[callee]); cs != nil && cs.Trusted {
					trusted[callee] = true
				}
			}
		}
	}
	SolveAll(all, SolveOpts{TimeoutMs: timeout, Dir: tmp, Seed: seed}, 2*runtime.NumCPU())

	kf := readKnownFindings(filepath.Join(vd, "known_findings.txt"))
	isKnown := func(name string) *knownFinding {
		for i := range kf {
			if kf[i].Kind == "finding" && kf[i].Property == *prop && kf[i].Obligation == name {
				return &kf[i]
			}
		}
		return nil
	}
	byBackend := map[string]int{}
	solverTime := 0.0
	nObl, nDis := 0, 0
	var samples []map[string]interface{}
	var violations []*Obligation
	var knownHit []string
	var vacuous []*Obligation
	type slowT struct {
		Name string  `json:"name"`
		S    float64 `json:"seconds"`
	}
	var slow []slowT
	covers := 0
	exitCovers := map[string][]*Obligation{}
	for _, o := range all {
		solverTime += o.TimeS
		slow = append(slow, slowT{o.Name, o.TimeS})
		rep := repByName[o.Func]
		if o.Expected == "sat" {
			// vacuity guard: only a definite unsat is a failure
			covers++
			if strings.Contains(o.Name, "cover:exit") {
				exitCovers[o.Func] = append(exitCovers[o.Func], o)
			} else if o.Result == "unsat" {
				vacuous = append(vacuous, o)
			}
			continue
		}
		if k := isKnown(o.Name); k != nil {
			if o.Result != "unsat" {
				knownHit = append(knownHit, fmt.Sprintf("KNOWN-FINDING: property=%s %s :: %s", *prop, o.Name, k.Text))
			}
			continue
		}
		nObl++
		if rep != nil {
			rep.Obligations++
		}
		if o.Result == "unsat" {
			nDis++
			byBackend[o.Solver]++
			if rep != nil {
				rep.Discharged++
			}
			if len(samples) < 6 && (o.Kind == "post" || strings.Contains(o.Kind, "inv-keep")) {
				samples = append(samples, map[string]interface{}{"obligation": o.Name, "clause": o.Text, "at": o.Pos, "solver": o.Solver, "seconds": o.TimeS, "smt_bytes": len(o.Script("z3", timeout, false))})
			}
		} else {
			violations = append(violations, o)
		}
	}
	// a function none of whose returns is reachable under its own assumptions is vacuously verified
	for _, os := range exitCovers {
		allUnsat := true
		for _, o := range os {
			if o.Result != "unsat" {
				allUnsat = false
			}
		}
		if allUnsat {
			vacuous = append(vacuous, os[0])
		}
	}
	for _, o := range unbound {
		if k := isKnown(o.Name); k != nil {
			knownHit = append(knownHit, fmt.Sprintf("KNOWN-FINDING: property=%s %s :: %s", *prop, o.Name, k.Text))
			continue
		}
		nObl++
		violations = append(violations, o)
	}
	sort.Slice(slow, func(i, j int) bool { return slow[i].S > slow[j].S })
	if len(slow) > 10 {
		slow = slow[:10]
	}
	if len(samples) == 0 && len(all) > 0 {
		o := all[0]
		samples = append(samples, map[string]interface{}{"obligation": o.Name, "clause": o.Text, "at": o.Pos, "solver": o.Solver, "seconds": o.TimeS})
	}

	// report
	exit := 0
	for _, l := range knownHit {
		fmt.Println(l)
	}
	for _, u := range undecided {
		fmt.Printf("UNDECIDED function=%s\n", u)
	}
	repDir := filepath.Join(vd, "replays", *prop)
	for _, o := range violations {
		os.MkdirAll(repDir, 0o755)
		path := filepath.Join(repDir, sanitize(o.Name)+".txt")
		suffix := writeReplay(e, o, path, *prop, timeout)
		fmt.Printf("VIOLATION property=%s replay=%s obligation=%s result=%s%s\n", *prop, path, o.Name, o.Result, suffix)
		exit = 1
	}
	for _, o := range vacuous {
		fmt.Printf("VACUOUS-CONTRACT function=%s (precondition unsatisfiable) — the check is broken, not the code\n", o.Func)
		exit = 2
	}
	if len(all) == 0 {
		fmt.Printf("NO-OBLIGATIONS property=%s — nothing was checked\n", *prop)
		exit = 2
	}

	// evidence
	var assumedList, noteList, inlList, trustedList []string
	for n := range assumed {
		assumedList = append(assumedList, n)
	}
	for n := range notes {
		noteList = append(noteList, n)
	}
	for n := range inlinedAll {
		inlList = append(inlList, n)
	}
	for n := range trusted {
		trustedList = append(trustedList, n)
	}
	sort.Strings(assumedList)
	sort.Strings(noteList)
	sort.Strings(inlList)
	sort.Strings(trustedList)
	sort.Slice(reports, func(i, j int) bool { return reports[i].Name < reports[j].Name })
	trustedBase := []string{"A-SSA: go/packages+go/types+go/ssa (x/tools v0.29.0) translate the source as the compiler does; the engine's instruction semantics match the Go spec",
		"A-SMT: an unsat answer of z3 4.8.12 / z3 5.1.0 / cvc5 1.0.3 is correct",
		"A-META: history induction over per-operation contracts; frame argument for concurrent readers",
		"A-ARITH: Go int arithmetic is treated as mathematical (no wrap-around) — sizes are far below 2^62",
		"A-EQ: == on the instantiating comparable type is a total equivalence",
		"A-FUNC: user comparators/callbacks are total, deterministic, heap-independent and write no container memory",
		"A-MAP: Go's built-in map is a finite map; range visits each present key exactly once"}
	var assumptions []string
	assumptions = append(assumptions, trustedBase...)
	for _, n := range assumedList {
		if strings.HasPrefix(n, "internal precondition") || strings.HasPrefix(n, "interface method") {
			assumptions = append(assumptions, "UNCHECKED: "+n)
			continue
		}
		assumptions = append(assumptions, "assumed contract of external function: "+n)
	}
	for _, n := range trustedList {
		assumptions = append(assumptions, "trusted (unverified) contract: "+n)
	}
	for _, n := range noteList {
		assumptions = append(assumptions, "note: "+n)
	}
	ev := map[string]interface{}{
		"property_id": *prop,
		"tier":        *tier,
		"seed":        seed,
		"level":       "proof",
		"coverage": map[string]interface{}{
			"obligations":              nObl,
			"discharged":               nDis,
			"checker_cmd":              fmt.Sprintf("bin/govc check -property %s -tier %s", *prop, *tier),
			"trusted_base":             trustedBase,
			"samples":                  samples,
			"functions_under_contract": reports,
			"by_backend":               byBackend,
			"solver_time_s":            solverTime,
			"slowest":                  slow,
			"vacuity_covers_checked":   covers,
			"inlined_helpers":          inlList,
			"assumed_contracts":        assumedList,
			"trusted_contracts":        trustedList,
			"undecided":                undecided,
			"known_findings_matched":   knownHit,
			"bounded":                  []string{},
		},
		"assumptions": assumptions,
		"wall_s":      time.Since(t0).Seconds(),
		"violations":  len(violations),
	}
	os.MkdirAll(filepath.Join(vd, "evidence"), 0o755)
	data, _ := json.MarshalIndent(ev, "", " ")
	os.WriteFile(filepath.Join(vd, "evidence", *prop+".json"), data, 0o644)
	fmt.Printf("property %s tier %s: %d functions, %d obligations, %d discharged, %d violations, %d known findings, %d undecided, %.1fs\n",
		*prop, *tier, len(reports), nObl, nDis, len(violations), len(knownHit), len(undecided), time.Since(t0).Seconds())
	os.Exit(exit)
}

// writeReplay writes the replay file of a failed obligation; returns the suffix of the VIOLATION line.
func writeReplay(e *Engine, o *Obligation, path string, prop string, timeout int) string {
	var b strings.Builder
	fmt.Fprintf(&b, "property: %s\nobligation: %s\nkind: %s\nfunction: %s\nat: %s\nclause: %s\nsolver result: %s (%s, %.2fs)\n", prop, o.Name, o.Kind, o.Func, o.Pos, o.Text, o.Result, o.Solver, o.TimeS)
	suffix := " no-failing-input-found"
	if o.FailedAlt != "" {
		fmt.Fprintf(&b, "failing conjunct: %s\n", o.FailedAlt)
	}
	if o.Kind == "contract-binding" {
		fmt.Fprintf(&b, "\nNo verification condition could be generated for this function: %s\nAll its obligations are discharged on the unchanged tree.\n", o.Text)
		os.WriteFile(path, []byte(b.String()), 0o644)
		return suffix
	}
	// try to obtain a model from the solver (quantifier-free failures usually give one)
	model := o.Model
	if model == "" && o.Result != "unsat" {
		tmp, _ := os.MkdirTemp("", "govcm")
		defer os.RemoveAll(tmp)
		r, out, _ := runSolver(solvers[0], o.Script("z3-new", 5000, true), tmp, "model", 5000)
		if r == "sat" {
			model = out
		}
	}
	if model != "" {
		fmt.Fprintf(&b, "\n--- solver model (counterexample to the obligation) ---\n%s\n", trimModel(model))
		if rp := tryReplay(e, o, model, &b); rp {
			suffix = ""
		}
	} else {
		fmt.Fprintf(&b, "\nno model: the solver answered %s (quantified obligation); the obligation is discharged on the unchanged tree and is not any more.\n", o.Result)
	}
	fmt.Fprintf(&b, "\n--- SMT-LIB script ---\n%s", o.Script("z3", timeout, true))
	os.WriteFile(path, []byte(b.String()), 0o644)
	return suffix
}

func trimModel(m string) string {
	if len(m) > 20000 {
		return m[:20000] + "\n... (truncated)"
	}
	return m
}

// tryReplay: concrete replay of a model on the real code (implemented in replay.go).
var tryReplay = func(e *Engine, o *Obligation, model string, b *strings.Builder) bool { return false }

// pkgOfKey: "pkg.Recv.Func" -> "pkg"
func pkgOfKey(k string) string {
	if i := strings.Index(k, "."); i >= 0 {
		return k[:i]
	}
	return k
}

// topPredNames: names of the predicate applications that are top-level conjuncts of a requires clause
func topPredNames(e Expr) []string {
	switch x := e.(type) {
	case *EBin:
		if x.Op == "&&" {
			return append(topPredNames(x.L), topPredNames(x.R)...)
		}
	case EBin:
		if x.Op == "&&" {
			return append(topPredNames(x.L), topPredNames(x.R)...)
		}
	case *ECall:
		return predName(x.Fn)
	case ECall:
		return predName(x.Fn)
	}
	return nil
}

func predName(fn string) []string {
	n := fn
	if i := strings.LastIndex(n, "."); i >= 0 {
		n = n[i+1:]
	}
	if len(n) > 0 && n[0] >= 'A' && n[0] <= 'Z' {
		return []string{fn}
	}
	return nil
}
