#!/bin/sh
# usage: check.sh <property-id> [quick|thorough]
# Rebuilds nothing but the verification conditions: the engine binary is built by setup.sh; VCs are generated
# from /repo's current working tree (build tag verif) on every run.
cd "$(dirname "$0")" || exit 2
export GOFLAGS=-mod=mod GOPROXY=off GOSUMDB=off GOTOOLCHAIN=local
[ -x bin/govc ] || ./setup.sh >/dev/null 2>&1 || { echo "setup failed"; exit 2; }
exec bin/govc check -property "$1" -tier "${2:-${VERIF_TIER:-quick}}"
