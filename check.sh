#!/bin/sh
# usage: check.sh <property-id> [quick|thorough]
# Rebuilds nothing but the verification conditions: the engine binary is built by setup.sh; VCs are generated
# from /repo's current working tree (build tag verif) on every run. For the tree mutators that are outside the
# deductive engine's reach a bounded stand-in (tools/bounded.py, labelled bounded in the evidence) runs afterwards.
cd "$(dirname "$0")" || exit 2
export GOFLAGS=-mod=mod GOPROXY=off GOSUMDB=off GOTOOLCHAIN=local
[ -x bin/govc ] || ./setup.sh >/dev/null 2>&1 || { echo "setup failed"; exit 2; }
TIER="${2:-${VERIF_TIER:-quick}}"
bin/govc check -property "$1" -tier "$TIER"; rc=$?
[ $rc -gt 1 ] && exit $rc
python3 tools/bounded.py "$1" "$TIER" || rc=1
exit $rc
